// Known finding F-C19-1 (property C19), native demonstration against the unchanged code.
//
// Found by: cal::c19iso::c19_domain_isolation_prefix_of_prefix (Kani/CBMC counterexample:
// prefix1 = 1 byte, prefix2 = prefix1 + 1 byte, same suffix and root).
//
// Run: copy to iceoryx2-cal/tests/f_c19_1.rs in a scratch worktree and
//   cargo test --offline -p iceoryx2-cal --test f_c19_1 -- --nocapture
// Both tests FAIL on the pinned tree (HEAD 95a2903): the domain configured with prefix "a_"
// lists, finds and can remove the storage that belongs to the domain with prefix "a_b".
//
// The naming scheme is <prefix><name><suffix> without a delimiter
// (NamedConceptConfiguration::path_for / extract_name_from_file), so whenever one prefix is a
// proper prefix of the other the shorter one parses the rest of the longer prefix as part of
// the name.  A repair needs a different on-disk naming scheme; recorded, not repaired.
// (Dynamic storages are not affected: DynamicStorageConfiguration::path_for_with_type puts a
// type hash and '_' between prefix and name, which happens to act as a delimiter.)

extern crate iceoryx2_bb_loggers;

use iceoryx2_bb_system_types::file_name::FileName;
use iceoryx2_bb_container::semantic_string::SemanticString;
use iceoryx2_cal::named_concept::*;
use iceoryx2_cal::static_storage::process_local;
use iceoryx2_cal::static_storage::{StaticStorage, StaticStorageBuilder};

// static storage is what services use for their static configuration (the file variant lists a
// directory; the process-local variant lists its map with the same extract_name_from_path)
type Storage = process_local::Storage;

fn cfg(prefix: &[u8]) -> <Storage as NamedConceptMgmt>::Configuration {
    <Storage as NamedConceptMgmt>::Configuration::default()
        .prefix(&FileName::new(prefix).unwrap())
        .suffix(&FileName::new(b".fc191").unwrap())
}

#[test]
fn shorter_prefix_lists_the_resources_of_the_longer_prefix() {
    let long = cfg(b"a_b");
    let short = cfg(b"a_");
    let name = FileName::new(b"thing").unwrap();
    let _storage = <Storage as StaticStorage>::Builder::new(&name)
        .config(&long)
        .create(b"content of the a_b domain")
        .unwrap();

    assert_eq!(Storage::list_cfg(&long).unwrap(), vec![name]);
    // property: a domain with a different prefix never sees this resource
    let seen: Vec<FileName> = Storage::list_cfg(&short).unwrap();
    assert!(
        seen.is_empty(),
        "the domain with prefix 'a_' lists a resource of the domain with prefix 'a_b': {:?}",
        seen
    );
}

#[test]
fn shorter_prefix_finds_the_resources_of_the_longer_prefix_under_another_name() {
    let long = cfg(b"a_b");
    let short = cfg(b"a_");
    let name = FileName::new(b"other").unwrap();
    let _storage = <Storage as StaticStorage>::Builder::new(&name)
        .config(&long)
        .create(b"content of the a_b domain")
        .unwrap();

    let alias = FileName::new(b"bother").unwrap();
    assert_eq!(
        Storage::does_exist_cfg(&alias, &short),
        Ok(false),
        "the domain with prefix 'a_' finds the foreign resource under the name 'bother'"
    );
}
