// replay of a solver counterexample (Kani concrete playback), property C15
// harness: c15::c15_pool_bb_history
// crate: hk
// features: 
// re-run: /verif/bin/check C15 --replay /verif/replays/C15/c15_pool_bb_history.rs
// natively reproduced: kani_concrete_playback_c15_pool_bb_history_15995957240264428503, kani_concrete_playback_c15_pool_bb_history_13653805869262806973, kani_concrete_playback_c15_pool_bb_history_958020614357363146
// failed check: assertion: attempt to subtract with overflow
/// Test generated for harness `c15::c15_pool_bb_history` 
///
/// Check for `assertion`: "attempt to subtract with overflow"
///
/// # Warning
///
/// Concrete playback tests combined with stubs or contracts is highly
/// experimental, and subject to change.
///
/// The original harness has stubs which are not applied to this test.
/// This may cause a mismatch of non-deterministic values if the stub
/// creates any non-deterministic value.
/// The execution path may also differ, which can be used to refine the stub
/// logic.

#[test]
fn kani_concrete_playback_c15_pool_bb_history_15995957240264428503() {
    let concrete_vals: Vec<Vec<u8>> = vec![
        // 2ul
        vec![2, 0, 0, 0, 0, 0, 0, 0],
        // 0ul
        vec![0, 0, 0, 0, 0, 0, 0, 0],
        // 8ul
        vec![8, 0, 0, 0, 0, 0, 0, 0],
        // 2
        vec![2],
    ];
    kani::concrete_playback_run(concrete_vals, c15_pool_bb_history);
}

// failed check: assertion: This is a placeholder message; Kani doesn't support message formatted at runtime
/// Test generated for harness `c15::c15_pool_bb_history` 
///
/// Check for `assertion`: "This is a placeholder message; Kani doesn't support message formatted at runtime"
///
/// # Warning
///
/// Concrete playback tests combined with stubs or contracts is highly
/// experimental, and subject to change.
///
/// The original harness has stubs which are not applied to this test.
/// This may cause a mismatch of non-deterministic values if the stub
/// creates any non-deterministic value.
/// The execution path may also differ, which can be used to refine the stub
/// logic.

#[test]
fn kani_concrete_playback_c15_pool_bb_history_13653805869262806973() {
    let concrete_vals: Vec<Vec<u8>> = vec![
        // 2ul
        vec![2, 0, 0, 0, 0, 0, 0, 0],
        // 8ul
        vec![8, 0, 0, 0, 0, 0, 0, 0],
        // 1ul
        vec![1, 0, 0, 0, 0, 0, 0, 0],
        // 1
        vec![1],
    ];
    kani::concrete_playback_run(concrete_vals, c15_pool_bb_history);
}

// failed check: assertion: "c15: allocation violates requested alignment"
/// Test generated for harness `c15::c15_pool_bb_history` 
///
/// Check for `assertion`: ""c15: allocation violates requested alignment""
///
/// # Warning
///
/// Concrete playback tests combined with stubs or contracts is highly
/// experimental, and subject to change.
///
/// The original harness has stubs which are not applied to this test.
/// This may cause a mismatch of non-deterministic values if the stub
/// creates any non-deterministic value.
/// The execution path may also differ, which can be used to refine the stub
/// logic.

#[test]
fn kani_concrete_playback_c15_pool_bb_history_958020614357363146() {
    let concrete_vals: Vec<Vec<u8>> = vec![
        // 1ul
        vec![1, 0, 0, 0, 0, 0, 0, 0],
        // 18ul
        vec![18, 0, 0, 0, 0, 0, 0, 0],
        // 2ul
        vec![2, 0, 0, 0, 0, 0, 0, 0],
        // 2
        vec![2],
        // 1
        vec![1],
        // 0ul
        vec![0, 0, 0, 0, 0, 0, 0, 0],
        // 0
        vec![0],
        // 0
        vec![0],
        // 0ul
        vec![0, 0, 0, 0, 0, 0, 0, 0],
        // 2
        vec![2],
    ];
    kani::concrete_playback_run(concrete_vals, c15_pool_bb_history);
}

