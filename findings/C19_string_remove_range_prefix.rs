// replay of a solver counterexample (Kani concrete playback), property C19
// harness: c19::c19_restricted_edit_g2
// crate: hk
// features: 
// re-run: /verif/bin/check C19 --replay /verif/replays/C19/c19_restricted_edit_g2.rs
// natively reproduced: kani_concrete_playback_c19_restricted_edit_g2_9041517355411519262
// failed check: assertion: index out of bounds: the length is less than or equal to the given index
/// Test generated for harness `c19::c19_restricted_edit_g2` 
///
/// Check for `assertion`: "index out of bounds: the length is less than or equal to the given index"
///
/// # Warning
///
/// Concrete playback tests combined with stubs or contracts is highly
/// experimental, and subject to change.
///
/// The original harness has stubs which are not applied to this test.
/// This may cause a mismatch of non-deterministic values if the stub
/// creates any non-deterministic value.
/// The execution path may also differ, which can be used to refine the stub
/// logic.

#[test]
fn kani_concrete_playback_c19_restricted_edit_g2_9041517355411519262() {
    let concrete_vals: Vec<Vec<u8>> = vec![
        // 84
        vec![84],
        // 53
        vec![53],
        // 31
        vec![31],
        // 188
        vec![188],
        // 160
        vec![160],
        // 63
        vec![63],
        // 2ul
        vec![2, 0, 0, 0, 0, 0, 0, 0],
        // 0
        vec![0],
        // 53
        vec![53],
        // 0ul
        vec![0, 0, 0, 0, 0, 0, 0, 0],
        // 0ul
        vec![0, 0, 0, 0, 0, 0, 0, 0],
    ];
    kani::concrete_playback_run(concrete_vals, c19_restricted_edit_g2);
}

