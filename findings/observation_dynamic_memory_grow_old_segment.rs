// NOT a seeded defect: this test FAILS on the UNCHANGED worktree HEAD (96e3e16).
//
// DynamicMemory::grow() (iceoryx2-cal/src/resizable_shared_memory/dynamic.rs) always forwards the
// request to the *current* segment ('current_segment.shm.grow(old_pointer, ..)') and stamps the
// result with the current segment id, without checking old_pointer.offset.segment_id(). When the
// chunk lives in an older segment and the new size fits into the bucket size of the current
// segment, the pool allocator "grows in place" and the returned ShmPointer is (same offset,
// current segment id) -> it aliases whatever chunk lives at that offset in the current segment.
// Violates C15 (overlap with a live allocation, content not kept).
//
//   cp seeded/incidental_finding_grow_of_chunk_in_old_segment.rs iceoryx2-cal/tests/c15_incidental.rs
//   CARGO_TARGET_DIR=/tmp/wt-C15/target cargo test --offline -p iceoryx2-cal --test c15_incidental
//   rm iceoryx2-cal/tests/c15_incidental.rs
//
// Output on clean HEAD: assertion `left != right` failed: grown chunk aliases live chunk b

extern crate iceoryx2_bb_loggers;
use core::alloc::Layout;
use iceoryx2_bb_elementary::allocation_strategy::AllocationStrategy;
use iceoryx2_bb_elementary_traits::allocator::{Allocate, ContentPlacement, Grow};
use iceoryx2_bb_posix::testing::generate_file_path;
use iceoryx2_cal::named_concept::*;
use iceoryx2_cal::resizable_shared_memory::dynamic::DynamicMemory;
use iceoryx2_cal::resizable_shared_memory::*;
use iceoryx2_cal::shm_allocator::pool_allocator::PoolAllocator;
use iceoryx2_cal::testing::*;

#[test]
fn grow_chunk_of_older_segment() {
    type Shm = iceoryx2_cal::shared_memory::process_local::Memory<PoolAllocator>;
    type Sut = DynamicMemory<PoolAllocator, Shm>;
    let storage_name = generate_file_path().file_name();
    let config = generate_isolated_config::<Sut>();
    let sut = <Sut as ResizableSharedMemory<PoolAllocator, Shm>>::MemoryBuilder::new(&storage_name)
        .config(&config)
        .allocation_strategy(AllocationStrategy::PowerOfTwo)
        .max_chunk_layout_hint(Layout::new::<u16>())
        .max_number_of_chunks_hint(8)
        .create()
        .unwrap();
    let small = Layout::from_size_align(2, 1).unwrap();
    let mid = Layout::from_size_align(16, 1).unwrap();
    let large = Layout::from_size_align(32, 1).unwrap();
    let a = sut.allocate(small).unwrap(); // segment 0, offset 0
    let b = sut.allocate(large).unwrap(); // segment 1, offset 0
    unsafe { a.data_ptr.write(1) };
    for n in 0..32 {
        unsafe { b.data_ptr.add(n).write(0xBB) };
    }
    let a2 = unsafe { sut.grow(a, small, mid, ContentPlacement::Front).unwrap() };
    assert_ne!(a2.data_ptr, b.data_ptr, "grown chunk aliases live chunk b");
    assert_eq!(unsafe { *a2.data_ptr }, 1);
}
