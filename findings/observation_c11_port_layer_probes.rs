// NOT a seeded defect. Two probes that FAIL on the UNMODIFIED worktree HEAD (95a2903) and show
// that the C11 property is already violated by the unchanged code in two corner cases. Found
// while looking for places to seed defects; kept because a C11 harness will (rightly) flag them
// on clean code.
//
// Run: copy to iceoryx2/tests/c11_upstream_probes.rs and
//   cargo test --offline -p iceoryx2 --test c11_upstream_probes -- --nocapture --test-threads 1
//
// 1. hazard_connection_index_reuse
//    ActiveRequest only remembers the *index* of the client connection in the server's response
//    sender (connection_id). When the client is dropped and a new client takes the same slot in
//    the dynamic config, ResponseMut::send() -> update_connections() silently re-points that
//    index to the NEW client. Request ids are per-client counters starting at 0 and channel ids
//    start at 0, so the first request of the new client has the same (channel, request id) as the
//    first request of the old one: the stale ActiveRequest of client 1 delivers its response into
//    the PendingResponse of client 2 (request-id filter passes), and dropping it closes the
//    stream of client 2's request (expected-state guard passes).
//    Observed: pending_2.receive() == Some(666); pending_2.is_connected() == false.
//
// 2. hazard_to_be_removed_loses_data_of_other_channel
//    port/details/receiver.rs, receive_from_to_be_removed_connections(channel): after a failed
//    receive on `channel` the to-be-removed connection (server gone) is removed when it has no
//    borrows - `_has_data` of the OTHER channels is ignored. A response buffered for pending
//    response 1 (channel 0) from a server that has since gone is discarded as soon as pending
//    response 2 (channel 1) polls receive().
//    Observed: pending_1.receive() == None although the server sent 11 for request 1.

use iceoryx2::prelude::*;

fn name(tag: &str) -> ServiceName {
    ServiceName::new(&format!("c11_probe_{}_{}", tag, std::process::id())).unwrap()
}

#[test]
fn hazard_connection_index_reuse() {
    let node = NodeBuilder::new().create::<local::Service>().unwrap();
    let service = node
        .service_builder(&name("idx"))
        .request_response::<u64, u64>()
        .max_clients(1)
        .max_servers(1)
        .max_active_requests_per_client(2)
        .create()
        .unwrap();
    let server = service.server_builder().create().unwrap();
    let client1 = service.client_builder().create().unwrap();
    let pending_1 = client1.send_copy(1).unwrap();
    let active_1 = server.receive().unwrap().unwrap();
    drop(pending_1);
    drop(client1);

    let client2 = service.client_builder().create().unwrap();
    let pending_2 = client2.send_copy(2).unwrap();
    active_1.send_copy(666).unwrap();
    let r = pending_2.receive().unwrap().map(|r| *r);
    println!("client2 pending received before the server answered it: {:?}", r);
    drop(active_1);
    println!(
        "pending_2 connected after the stale ActiveRequest of the OTHER client was dropped: {}",
        pending_2.is_connected()
    );
    assert_eq!(r, None);
    assert!(pending_2.is_connected());
}

#[test]
fn hazard_to_be_removed_loses_data_of_other_channel() {
    let node = NodeBuilder::new().create::<local::Service>().unwrap();
    let service = node
        .service_builder(&name("tbr"))
        .request_response::<u64, u64>()
        .max_clients(1)
        .max_servers(1)
        .max_active_requests_per_client(2)
        .create()
        .unwrap();
    let server = service.server_builder().create().unwrap();
    let client = service.client_builder().create().unwrap();
    let pending_1 = client.send_copy(1).unwrap();
    let pending_2 = client.send_copy(2).unwrap();
    let active_1 = server.receive().unwrap().unwrap();
    let active_2 = server.receive().unwrap().unwrap();
    assert_eq!(*active_1.payload(), 1);
    active_1.send_copy(11).unwrap();
    drop(active_1);
    drop(active_2);
    drop(server);

    let r2 = pending_2.receive().unwrap().map(|r| *r);
    let r1 = pending_1.receive().unwrap().map(|r| *r);
    println!("pending_2 -> {:?}, pending_1 -> {:?}", r2, r1);
    assert_eq!(r2, None);
    assert_eq!(r1, Some(11));
}
