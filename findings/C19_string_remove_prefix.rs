// replay of a solver counterexample (Kani concrete playback), property C19
// harness: c19::c19_restricted_edit_g1
// crate: hk
// features: 
// re-run: /verif/bin/check C19 --replay /verif/replays/C19/c19_restricted_edit_g1.rs
// natively reproduced: kani_concrete_playback_c19_restricted_edit_g1_3064815660084929628, kani_concrete_playback_c19_restricted_edit_g1_12086766993681384326
// failed check: assertion: index out of bounds: the length is less than or equal to the given index
/// Test generated for harness `c19::c19_restricted_edit_g1` 
///
/// Check for `assertion`: "index out of bounds: the length is less than or equal to the given index"
///
/// # Warning
///
/// Concrete playback tests combined with stubs or contracts is highly
/// experimental, and subject to change.
///
/// The original harness has stubs which are not applied to this test.
/// This may cause a mismatch of non-deterministic values if the stub
/// creates any non-deterministic value.
/// The execution path may also differ, which can be used to refine the stub
/// logic.

#[test]
fn kani_concrete_playback_c19_restricted_edit_g1_3064815660084929628() {
    let concrete_vals: Vec<Vec<u8>> = vec![
        // 32
        vec![32],
        // 58
        vec![58],
        // 36
        vec![36],
        // 92
        vec![92],
        // 232
        vec![232],
        // 92
        vec![92],
        // 2ul
        vec![2, 0, 0, 0, 0, 0, 0, 0],
        // 0
        vec![0],
        // 255
        vec![255],
        // 2ul
        vec![2, 0, 0, 0, 0, 0, 0, 0],
        // 1ul
        vec![1, 0, 0, 0, 0, 0, 0, 0],
    ];
    kani::concrete_playback_run(concrete_vals, c19_restricted_edit_g1);
}

// failed check: assertion: "c19: remove out of bounds did not return None"
/// Test generated for harness `c19::c19_restricted_edit_g1` 
///
/// Check for `assertion`: ""c19: remove out of bounds did not return None""
///
/// # Warning
///
/// Concrete playback tests combined with stubs or contracts is highly
/// experimental, and subject to change.
///
/// The original harness has stubs which are not applied to this test.
/// This may cause a mismatch of non-deterministic values if the stub
/// creates any non-deterministic value.
/// The execution path may also differ, which can be used to refine the stub
/// logic.

#[test]
fn kani_concrete_playback_c19_restricted_edit_g1_12086766993681384326() {
    let concrete_vals: Vec<Vec<u8>> = vec![
        // 125
        vec![125],
        // 35
        vec![35],
        // 36
        vec![36],
        // 164
        vec![164],
        // 128
        vec![128],
        // 0
        vec![0],
        // 1ul
        vec![1, 0, 0, 0, 0, 0, 0, 0],
        // 0
        vec![0],
        // 255
        vec![255],
        // 1ul
        vec![1, 0, 0, 0, 0, 0, 0, 0],
        // 1ul
        vec![1, 0, 0, 0, 0, 0, 0, 0],
    ];
    kani::concrete_playback_run(concrete_vals, c19_restricted_edit_g1);
}

