"""Properties that are not claimed, each with the reason (see DESIGN.md section 7)."""
import json
import os

import registry

VERIF = os.path.dirname(os.path.dirname(os.path.dirname(os.path.abspath(__file__))))

REASONS = {
    "C01": "delivery order / exactly-once / documented loss is a property of publisher.rs / subscriber.rs / sender.rs / "
           "receiver.rs on a real `Service` (private super-trait, files, shm): not encodable; the connection-level "
           "substitute (zero_copy_connection try_send/receive/release on an in-memory storage, buffer 1, borrow 1) was "
           "built and does not fit the solver (44 M variables / 239 M clauses, out of memory at 48 GB) because every "
           "queue behind a RelocatablePointer gets a symbolic offset; the queue components are decided under C03/C16",
    "C02": "the conservation law lives in segment_state.rs / sender.rs / sample.rs of the iceoryx2 crate (crate-private, "
           "needs a `Service`): not encodable; the connection-level substitute did not fit the solver (see C01); "
           "what is decided elsewhere: pool allocator reuse only after deallocate (C15), used-chunk list vs set model "
           "and queue conservation (C03)",
    "C04": "crash points range over system calls of real processes and the kernel's clean-up of locks/fds; the code "
           "between the FFI calls (node, service builder, file/shm storage, process_state) is file-, TOML- and "
           "format!-heavy whole-program code that does not fit CBMC, and a solver model of the POSIX file system would "
           "decide the property instead of iceoryx2",
    "C06": "service creation atomicity is exclusive file creation, permission bits, shm objects and directory listings "
           "across processes; `Service` has a private super-trait so no solver-friendly service can be supplied out of "
           "tree; not encodable with Kani/CBMC here",
    "C07": "ProcessMonitor verdicts are a decision tree over open/fstat/fcntl(F_GETLK) results of files manipulated by "
           "another process; soundness is a statement about kernel lock semantics across processes, outside any "
           "encoding of the real code within reach",
    "C10": "the property is about ContainerState snapshots (update_state) racing writers; one get_state/update_state "
           "round on capacity 1 already needs > 38 GB in CBMC (generation-counter loops over a RelocatablePointer "
           "payload), so neither the sequential nor the scheduled snapshot harness fits; only add/remove/recover "
           "without snapshots fits, which is not the property",
    "C17": "drop-order permutations over object graphs of nodes, services, ports and samples need the full port layer "
           "on a real `Service` (files, shm, sockets); not encodable",
    "C18": "trace equivalence of the C and Rust APIs over the full stack through extern \"C\" entry points; not "
           "encodable (error-enum totality is already enforced by rustc's exhaustive match)",
    "C20": "WaitSet needs a `Service`; the reactor is epoll/select FFI; DeadlineQueue alone is a fraction of the "
           "property and its u128 division by a symbolic period stalls bit-blasting",
}
DEFAULT = "no solver-based check of the real code has been built for this property in this round (see DESIGN.md)"


def _ids():
    out = []
    for line in open(os.path.join(VERIF, "properties.jsonl")):
        line = line.strip()
        if line:
            out.append(json.loads(line)["id"])
    return out


NOT_APPLICABLE = [{"property_id": i, "reason": REASONS.get(i, DEFAULT)} for i in _ids()
                  if i not in registry.PROPS or not registry.PROPS[i].get("claimed", True)]
