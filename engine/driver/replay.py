"""Counterexample replay: turn CBMC's assignment into an ordinary unit test (Kani concrete
playback) and run it natively against the real crates.  Only what reproduces is reported."""
import os
import re
import subprocess

from kani_run import ENV, SCRATCH, VERIF, Harness, prepare_crate, run_harness

BLOCK_RE = re.compile(r"Concrete playback unit test for `([^`]*)`:\s*```\n(.*?)```", re.S)


def module_file(cdir, harness_name):
    parts = harness_name.split("::")[:-1]
    p = os.path.join(cdir, "src", *parts) + ".rs"
    if os.path.exists(p):
        return p
    return os.path.join(cdir, "src", *parts, "mod.rs")


def extract_tests(text):
    """[(check_kind, description, test_name, source)] for every generated test."""
    out = []
    for _h, src in BLOCK_RE.findall(text):
        m = re.search(r"Check for `([^`]*)`: \"(.*)\"", src)
        n = re.search(r"fn (kani_concrete_playback_\w+)\(", src)
        if n:
            out.append((m.group(1) if m else "?", m.group(2) if m else "?", n.group(1), src))
    return out


def native_run(h, tests, release=False):
    """Append the tests to the harness module in the scratch crate copy and run them natively.
    Returns {test_name: reproduced?} and the output."""
    cdir = prepare_crate(h.crate)
    mf = module_file(cdir, h.name)
    orig = open(mf).read()
    try:
        with open(mf, "a") as f:
            f.write("\n// ---- appended by the replay driver ----\n")
            for (_k, _d, _n, src) in tests:
                f.write(src + "\n")
        cmd = ["cargo", "kani", "playback", "-Z", "concrete-playback"]
        feats = list(h.features) + (["sched"] if h.crate == "hs" else [])
        if feats:
            cmd += ["--features", ",".join(feats)]
        if release:
            cmd += ["--release"]
        # one process per test: the harnesses keep their bookkeeping in statics, which a Kani run starts fresh
        # for every harness but a native test binary shares between the tests of one process
        out = ""
        for (_k, _d, n, _s) in tests:
            r = subprocess.run(cmd + ["--", n, "--test-threads", "1"], cwd=cdir, env=ENV, stdout=subprocess.PIPE,
                               stderr=subprocess.STDOUT, text=True, timeout=1800)
            out += r.stdout + "\n"
    finally:
        open(mf, "w").write(orig)
    res = {}
    for (_k, _d, n, _s) in tests:
        m = re.search(r"test \S*%s \.\.\. (\w+)" % re.escape(n), out)
        # a panic inside a destructor during unwinding aborts the test process: no "FAILED" line is
        # printed, but the panic of this very test is in the output
        aborted = re.search(r"thread '\S*%s' \(\d+\) panicked at" % re.escape(n), out) is not None
        res[n] = (m is not None and m.group(1) == "FAILED") or (m is None and aborted)
    return res, out


def replay_failure(h, prop, logdir):
    """Re-run a failed harness with concrete playback, replay natively, write the replay file.
    Returns (reproduced: bool, replay_path or None, detail)."""
    if getattr(h, "concrete", False):
        # a harness without any kani::any() input is its own replay: run its body natively (a second CBMC run
        # in trace mode takes hours for the connection harnesses and would add nothing)
        tname = "kani_concrete_playback_%s_no_symbolic_input" % h.short
        src = ("/// Check for `assertion`: \"harness without symbolic input, executed natively\"\n#[test]\nfn %s() {\n"
               "    let concrete_vals: Vec<Vec<u8>> = vec![];\n    kani::concrete_playback_run(concrete_vals, %s);\n}\n"
               % (tname, h.short))
        all_tests = [("assertion", "harness without symbolic input fails natively", tname, src)]
    elif getattr(h, "native_space", None):
        # the symbolic input space of the harness is tiny: instead of a second CBMC run in trace mode (hours, and
        # kani-driver cannot hold the trace of these harnesses) every input vector is executed natively; the solver
        # verdict decided, this only confirms it against the real build
        import itertools
        all_tests = []
        for combo in itertools.product(*[vals for (_ty, vals) in h.native_space]):
            rows = []
            for (ty, _vals), v in zip(h.native_space, combo):
                width = {"u8": 1, "bool": 1, "u16": 2, "u32": 4, "u64": 8, "usize": 8}[ty]
                rows.append("vec![%s]" % ", ".join(str(b) for b in int(v).to_bytes(width, "little")))
            tname = "kani_concrete_playback_%s_%s" % (h.short, "_".join(str(int(v)) for v in combo))
            src = ("/// Check for `assertion`: \"native run with inputs %s\"\n#[test]\nfn %s() {\n"
                   "    let concrete_vals: Vec<Vec<u8>> = vec![%s];\n    kani::concrete_playback_run(concrete_vals, %s);\n}\n"
                   % (list(combo), tname, ", ".join(rows), h.short))
            all_tests.append(("assertion", "fails natively with inputs %s" % (list(combo),), tname, src))
    else:
        r = run_harness(h, logdir, playback=True)
        all_tests = extract_tests(r["text"] or "")
    # Kani writes playback tests for failed assertions and for satisfied cover witnesses, but none for
    # CBMC's built-in checks (e.g. "memcpy src/dst overlap").  The witness tests are tried as well: they
    # count only if the *native* run fails, so a witness that does not hit the defect changes nothing.
    lim = 64 if getattr(h, "native_space", None) else 8
    tests = [t for t in all_tests if t[0] != "cover"][:lim] + [t for t in all_tests if t[0] == "cover"][:4]
    if not tests:
        return False, None, "Kani produced no concrete playback test for the failed checks"
    res, out = native_run(h, tests)
    open(os.path.join(logdir, h.short + ".native.log"), "w").write(out)
    good = [t for t in tests if res.get(t[2])]
    rdir = os.path.join(os.environ.get("VERIF_REPLAY_DIR", os.path.join(VERIF, "replays")), prop)
    os.makedirs(rdir, exist_ok=True)
    path = os.path.join(rdir, h.short + ".rs")
    with open(path, "w") as f:
        f.write("// replay of a solver counterexample (Kani concrete playback), property %s\n" % prop)
        f.write("// harness: %s\n// crate: %s\n// features: %s\n" % (h.name, h.crate, ",".join(h.features)))
        f.write("// re-run: /verif/bin/check %s --replay %s\n" % (prop, path))
        f.write("// natively reproduced: %s\n" % ", ".join(t[2] for t in good))
        for t in (good or tests):
            f.write("// failed check: %s: %s\n" % (t[0], t[1]))
            f.write(t[3] + "\n")
    if good:
        return True, path, "; ".join(sorted(set((t[1] if t[0] != "cover" else "native failure on the path of witness '%s'" % t[1])
                                                   for t in good)))
    return False, path, "counterexample did not reproduce natively (checks: %s)" % "; ".join(sorted(set(t[1] for t in tests)))


def replay_file(path):
    """`check <ID> --replay <file>`: run a stored replay against the current tree."""
    src = open(path).read()
    name = re.search(r"^// harness: (.*)$", src, re.M).group(1).strip()
    crate = re.search(r"^// crate: (.*)$", src, re.M).group(1).strip()
    feats = re.search(r"^// features: (.*)$", src, re.M).group(1).strip()
    h = Harness(name, crate=crate, features=[f for f in feats.split(",") if f])
    tests = []
    for m in re.finditer(r"(#\[test\]\nfn (kani_concrete_playback_\w+)\(\).*?\n}\n)", src, re.S):
        tests.append(("assertion", "", m.group(2), m.group(1)))
    res, out = native_run(h, tests)
    print(out[-3000:])
    return any(res.values())
