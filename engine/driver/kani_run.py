"""Run Kani harnesses of the /verif harness crate against /repo's current working tree and parse
the results.  Nothing here decides a property: CBMC does; this module only launches, bounds
(time / memory), parses and classifies."""
import json
import os
import re
import resource
import shutil
import subprocess
import threading
import time
from concurrent.futures import ThreadPoolExecutor

VERIF = os.path.dirname(os.path.dirname(os.path.dirname(os.path.abspath(__file__))))
REPO = os.environ.get("VERIF_REPO", "/repo")
SCRATCH = os.environ.get("VERIF_SCRATCH", "/var/tmp/iox2-verif")

ENV = dict(os.environ)
ENV["CARGO_NET_OFFLINE"] = "true"
ENV.pop("RUSTUP_TOOLCHAIN", None)  # cargo-kani pins its own toolchain

STUB_LINES = (
    "alloc :: fmt :: format",
    "iceoryx2_log :: __internal_print_log_msg",
)


class Harness:
    def __init__(self, name, crate="hk", features=(), tiers=("quick", "thorough"), covers=0,
                 timeout=900, mem_gb=8, what="", bounds="", sched=False, extra=(), expect_stubs=True,
                 known=None, unwindset=None, cbmc_args=(), concrete=False, native_space=None):
        self.name = name            # module::function, used with --exact
        self.crate = crate          # hk (plain pal crate) or hs (instrumented drop-in)
        self.features = tuple(features)
        self.tiers = tiers
        self.covers = covers        # number of kani::cover! witnesses that must be SATISFIED
        self.timeout = timeout
        self.mem_gb = mem_gb
        self.what = what
        self.bounds = bounds
        self.extra = tuple(extra)
        self.expect_stubs = expect_stubs
        self.known = known          # id of an open known finding this harness must reproduce
        # per-loop unwinding bounds: {"substr1&substr2": n} - every loop whose (mangled) function name
        # contains all the substrings gets bound n instead of the harness-wide one; the unwinding
        # assertion of that loop stays on, so a too-small bound is reported (exit 2), never hidden
        self.unwindset = dict(unwindset or {})
        self.cbmc_args = tuple(cbmc_args)   # extra CBMC options (e.g. --max-field-sensitivity-array-size)
        self.concrete = concrete            # the harness has no kani::any() input: its native run is the replay
        # [(type, values)] in the order of the harness' kani::any() calls, for harnesses whose whole input space
        # is small enough to be executed natively as confirmation of a solver counterexample
        self.native_space = native_space

    @property
    def short(self):
        return self.name.split("::")[-1]


def sh(cmd, **kw):
    return subprocess.run(cmd, shell=isinstance(cmd, str), stdout=subprocess.PIPE, stderr=subprocess.STDOUT,
                          text=True, **kw)


_prep_lock = threading.Lock()
_prepared = set()
WORK = "default"  # set by bin/check to <property>-<tier>: concurrent checks never share a source copy


def prepare_crate(crate):
    """Copy the harness crate to scratch (so /verif stays clean), take /repo's Cargo.lock, and for
    the `hs` variant regenerate the instrumented drop-in of iceoryx2-pal-concurrency-sync from
    /repo's current source and point cargo at it through a `paths` override."""
    with _prep_lock:
        dst = os.path.join(SCRATCH, "work", WORK, crate)
        if crate in _prepared:
            return dst
        os.makedirs(os.path.dirname(dst), exist_ok=True)
        src = os.path.join(VERIF, "engine", "hk")
        if os.path.isdir(dst):
            shutil.rmtree(dst)
        shutil.copytree(src, dst, ignore=shutil.ignore_patterns("target", "Cargo.lock"))
        # path dependencies follow VERIF_REPO
        if REPO != "/repo":
            p = os.path.join(dst, "Cargo.toml")
            s = open(p).read().replace('"/repo/', '"%s/' % REPO.rstrip("/"))
            open(p, "w").write(s)
        shutil.copy(os.path.join(REPO, "Cargo.lock"), os.path.join(dst, "Cargo.lock"))
        os.makedirs(os.path.join(dst, ".cargo"), exist_ok=True)
        cfg = "[net]\noffline = true\n"
        if crate == "hs":
            dropin = os.path.join(SCRATCH, "work", WORK, "dropin", "iceoryx2-pal-concurrency-sync")
            gen = os.path.join(VERIF, "engine", "dropin", "gen_dropin.py")
            r = sh(["python3", gen, os.path.join(REPO, "iceoryx2-pal", "concurrency-sync"), dropin])
            if r.returncode != 0:
                raise RuntimeError("drop-in generation failed:\n" + r.stdout)
            cfg = 'paths = ["%s"]\n' % dropin + cfg
        open(os.path.join(dst, ".cargo", "config.toml"), "w").write(cfg)
        _prepared.add(crate)
        return dst


def _limits(mem_gb):
    def f():
        lim = int(max(mem_gb, 6) * 1024 ** 3)
        resource.setrlimit(resource.RLIMIT_AS, (lim, lim))
        os.setsid()
    return f


CHECK_RE = re.compile(r"^Check (\d+): (.*)$")


def parse_log(text):
    """Parse Kani's regular output into a dict."""
    res = {"verdict": None, "checks": 0, "failed": [], "unreachable": 0, "covers": [], "stubs": [],
           "time_s": None, "functions": set(), "undetermined": 0, "success": 0}
    cur = None
    for line in text.splitlines():
        m = CHECK_RE.match(line)
        if m:
            cur = {"id": int(m.group(1)), "name": m.group(2), "status": None, "desc": "", "loc": ""}
            res["checks"] += 1
            continue
        s = line.strip()
        if cur is not None and s.startswith("- Status:"):
            cur["status"] = s.split(":", 1)[1].strip()
        elif cur is not None and s.startswith("- Description:"):
            cur["desc"] = s.split(":", 1)[1].strip().strip('"')
        elif cur is not None and s.startswith("- Location:"):
            cur["loc"] = s.split(":", 1)[1].strip()
            mm = re.search(r"in function (.*)$", cur["loc"])
            if mm and ("/repo/" in cur["loc"] or "repo/iceoryx2" in cur["loc"]):
                res["functions"].add(mm.group(1))
            st = cur["status"]
            if ".cover." in cur["name"] or cur["desc"].startswith("cover condition") or st in ("SATISFIED", "UNSATISFIABLE"):
                if st in ("SATISFIED", "UNSATISFIABLE", "UNREACHABLE") and ".cover." in cur["name"]:
                    res["covers"].append(cur)
            if st == "FAILURE":
                res["failed"].append(cur)
            elif st == "UNREACHABLE":
                res["unreachable"] += 1
            elif st == "UNDETERMINED":
                res["undetermined"] += 1
            elif st == "SUCCESS":
                res["success"] += 1
            cur = None
        elif s.startswith("- Stub:"):
            res["stubs"].append(s[len("- Stub:"):].strip())
        elif s.startswith("VERIFICATION:-"):
            res["verdict"] = s.split(":-", 1)[1].strip()
        elif s.startswith("Verification Time:"):
            try:
                res["time_s"] = float(s.split(":", 1)[1].strip().rstrip("s"))
            except ValueError:
                pass
    res["functions"] = sorted(res["functions"])
    return res


def classify(h, parsed, rc, timed_out):
    """pass | fail | unwind | canary | vacuous | inconclusive"""
    if timed_out:
        return "inconclusive", "timeout after %ds" % h.timeout
    v = parsed["verdict"]
    if v is None:
        return "inconclusive", "no verdict (build error, solver crash or out of memory; rc=%s)" % rc
    fails = parsed["failed"]
    if v == "SUCCESSFUL":
        if h.expect_stubs:
            got = " | ".join(parsed["stubs"])
            for sline in STUB_LINES:
                if sline not in got:
                    return "inconclusive", "stub not confirmed by Kani: " + sline
        sat = [c for c in parsed["covers"] if c["status"] == "SATISFIED"]
        # UNREACHABLE = statically dead (e.g. the other arm of an `if Q::OVERFLOW`): tolerated only
        # beyond the number of witnesses the registry demands; UNSATISFIABLE is never tolerated
        unsat = [c for c in parsed["covers"] if c["status"] == "UNSATISFIABLE"]
        if len(sat) < h.covers or unsat:
            missing = [c["desc"] for c in parsed["covers"] if c["status"] != "SATISFIED"]
            return "vacuous", "witness not satisfied: %s (have %d, need %d)" % (missing, len(sat), h.covers)
        return "pass", ""
    if v == "FAILED":
        if not fails:
            return "inconclusive", "FAILED without a failed check (undetermined=%d)" % parsed["undetermined"]
        real = [f for f in fails if "unwinding assertion" not in f["desc"]]
        if not real:
            return "unwind", "unwinding assertion failed: bound too small for this tree"
        canary = [f for f in real if f["desc"].startswith("canary:")]
        if canary:
            return "canary", "constant canary failed (Kani encoding artefact): " + canary[0]["desc"]
        return "fail", "; ".join(sorted(set(f["desc"] for f in real))[:6])
    return "inconclusive", "verdict " + str(v)


def run_harness(h, logdir, playback=False):
    cdir = prepare_crate(h.crate)
    os.makedirs(logdir, exist_ok=True)
    log = os.path.join(logdir, h.short + (".playback" if playback else "") + ".log")
    cmd = ["cargo", "kani", "-Z", "stubbing", "--harness", h.name, "--exact",
           "--target-dir", os.path.join(SCRATCH, "target-" + h.crate)]
    feats = list(h.features) + (["sched"] if h.crate == "hs" else [])
    if feats:
        cmd += ["--features", ",".join(feats)]
    cmd += list(h.extra)
    if playback:
        cmd += ["-Z", "concrete-playback", "--concrete-playback=print"]
    t0 = time.time()
    timed_out = False
    uw_note = ""
    cbmc_args = list(h.cbmc_args)
    if h.unwindset:
        labels, uw_note = loop_labels(h, cmd, cdir, log)
        if labels:
            cbmc_args += ["--unwindset", ",".join("%s:%d" % kv for kv in labels)]
    if cbmc_args:
        cmd += ["-Z", "unstable-options", "--cbmc-args"] + cbmc_args
    with open(log, "w") as lf:
        p = subprocess.Popen(cmd, cwd=cdir, env=ENV, stdout=lf, stderr=subprocess.STDOUT,
                             # the playback run cannot use formula slicing (CBMC needs the full trace): ~2x the memory
                             preexec_fn=_limits(min(h.mem_gb * 3.2 + 4, 56) if playback else h.mem_gb * 1.6 + 4))
        peak = [0.0]
        stop = threading.Event()

        def watch():
            # peak resident memory of the harness' process group (cargo, kani-driver, cbmc), sampled every 5 s
            while not stop.wait(5):
                tot = 0
                try:
                    for d in os.listdir("/proc"):
                        if d.isdigit():
                            try:
                                st = open("/proc/%s/stat" % d).read().rsplit(")", 1)[1].split()
                                if int(st[3]) == p.pid:  # session id (the child called setsid)
                                    tot += int(st[21]) * 4096
                            except (OSError, IndexError, ValueError):
                                pass
                except OSError:
                    pass
                peak[0] = max(peak[0], tot / 1024.0 ** 3)
        wt = threading.Thread(target=watch, daemon=True)
        wt.start()
        try:
            rc = p.wait(timeout=h.timeout * (2 if playback else 1))
        except subprocess.TimeoutExpired:
            timed_out = True
            try:
                os.killpg(p.pid, 9)
            except ProcessLookupError:
                pass
            rc = p.wait()
    stop.set()
    wall = time.time() - t0
    text = open(log, errors="replace").read()
    parsed = parse_log(text)
    status, why = classify(h, parsed, rc, timed_out)
    return {"harness": h.name, "crate": h.crate, "status": status, "why": why, "wall_s": round(wall, 1),
            "peak_rss_gb": round(peak[0], 1),
            "solver_time_s": parsed["time_s"], "checks": parsed["checks"], "failed": parsed["failed"],
            "unreachable": parsed["unreachable"], "success": parsed["success"],
            "covers": [{"desc": c["desc"], "status": c["status"]} for c in parsed["covers"]],
            "stubs": parsed["stubs"], "functions": parsed["functions"], "log": log, "what": h.what,
            "bounds": h.bounds + ((" [" + uw_note + "]") if uw_note else ""), "text": text if playback else None}


def loop_labels(h, cmd, cdir, log):
    """Phase 1 for harnesses with per-loop bounds: let Kani build the goto binary (the CBMC call is
    given --show-loops, which ends it immediately), list its loops with goto-instrument and match the
    patterns of h.unwindset against the mangled loop names of THIS build."""
    r = sh(cmd + ["--verbose", "-Z", "unstable-options", "--cbmc-args", "--show-loops"], cwd=cdir, env=ENV)
    with open(log + ".loops", "w") as f:
        f.write(r.stdout)
    m = None
    for line in r.stdout.split("\n"):
        if "Running: `cbmc " in line:
            for tok in line.split():
                if tok.endswith(".out") or tok.endswith(".out`"):
                    m = tok.rstrip("`")
    if not m or not os.path.exists(m):
        return [], "per-loop bounds not applied (goto binary not found)"
    r2 = sh(["goto-instrument", "--show-loops", m])
    names = re.findall(r"^Loop (\S+):", r2.stdout, re.M)
    labels = []
    for pat, n in h.unwindset.items():
        hit = [x for x in names if _loop_match(pat, x)]
        labels += [(x, n) for x in hit]
    note = "per-loop bounds: " + "; ".join("%s -> %d (%d loops)" % (pat, n, len([1 for x in names if _loop_match(pat, x)]))
                                             for pat, n in h.unwindset.items())
    return labels, note


def _loop_match(pat, label):
    """pattern parts joined by '&'; a part starting with '.' must be the loop-number suffix"""
    for q in pat.split("&"):
        if q.startswith("."):
            if not label.endswith(q):
                return False
        elif q not in label:
            return False
    return True


def run_many(harnesses, logdir, budget_gb=None, max_par=12, order_seed=0):
    """Run harnesses in parallel under a memory budget (sum of mem_gb estimates)."""
    import random
    if budget_gb is None:
        budget_gb = float(os.environ.get("VERIF_BUDGET_GB", "44"))
    hs = list(harnesses)
    random.Random(order_seed).shuffle(hs)
    hs.sort(key=lambda h: -h.mem_gb)  # big ones first, stable w.r.t. the seeded shuffle
    cond = threading.Condition()
    state = {"used": 0.0}
    results = []

    def mem_available_gb():
        try:
            for line in open("/proc/meminfo"):
                if line.startswith("MemAvailable:"):
                    return int(line.split()[1]) / (1024.0 * 1024.0)
        except OSError:
            pass
        return 1e9

    def worker(h):
        with cond:
            while state["used"] + h.mem_gb > budget_gb and state["used"] > 0:
                cond.wait()
            state["used"] += h.mem_gb
        # besides the per-check budget, never start a solver when the machine itself is short of
        # memory (other checks, builds or test runs may be active): wait up to 30 minutes
        waited = 0
        while mem_available_gb() < h.mem_gb * 1.2 + 3 and waited < 1800:
            time.sleep(15)
            waited += 15
        try:
            r = run_harness(h, logdir)
        except Exception as e:  # noqa
            r = {"harness": h.name, "crate": h.crate, "status": "inconclusive", "why": "driver error: %r" % e,
                 "wall_s": 0, "solver_time_s": None, "checks": 0, "failed": [], "unreachable": 0, "success": 0,
                 "covers": [], "stubs": [], "functions": [], "log": "", "what": h.what, "bounds": h.bounds}
        with cond:
            state["used"] -= h.mem_gb
            cond.notify_all()
        return r

    # warm the build once (dependencies) so that parallel invocations only wait briefly on the lock
    with ThreadPoolExecutor(max_workers=max_par) as ex:
        for r in ex.map(worker, hs):
            results.append(r)
    return results
