"""Which harnesses decide which property, in which tier, with which resource caps.
Bounds are stated next to each harness and copied into the evidence file."""
from kani_run import Harness as H

COMMON_ASSUMPTIONS = [
    "sequentially consistent memory: Ordering arguments are ignored by the encoding (CBMC/Kani model atomics as "
    "sequential); C11 weak-memory stale reads are outside every claim",
    "stubs (Kani -Z stubbing): iceoryx2_log::__internal_print_log_msg -> no-op, alloc::fmt::format -> empty String, "
    "iceoryx2_bb_container::string::as_escaped_string -> empty String (log text is not part of any property)",
    "heap allocation never fails (Kani default)",
    "Kani 0.68 / CBMC 6.11 / rustc (Kani's pinned nightly) are trusted; dev-profile semantics (overflow checks and "
    "debug assertions on)",
    "every solver counterexample is replayed natively against the real crates before it is reported",
]

PROPS = {}

PROPS["C15"] = {
    "bounds": "segment <= 56 bytes at symbolic misalignment < 8/16; bucket layout size 1..=12, align 1/2/4/8 "
              "(size % align != 0 included); request size 0..=13/20, align <= 16; histories of 3-4 symbolic "
              "allocate/deallocate steps; grow/shrink on one bucket",
    "outside": "growth of a dynamic data segment while a subscriber holds samples (resizable_shared_memory, port "
               "layer): several real shm segments and the port layer are not encodable; alignments > 16 and "
               "segments > 56 bytes; concurrent allocation (see C09)",
    "assumptions": [],
    "harnesses": [
        H("c15::c15_pool_bb_history", covers=4, timeout=1500, mem_gb=6,
          what="bb-memory FixedSizePoolAllocator<4>: 4 symbolic allocate/deallocate steps; in-bounds, aligned, "
               "disjoint at full bucket size, exact failure conditions, freed bucket reusable",
          bounds="unwind 8; segment<=56B, misalign<8, bucket size 1..=12 align<=8, request size<=13 align<=16"),
        H("c15::c15_pool_bb_grow_shrink", covers=1, timeout=900, mem_gb=4,
          what="bb-memory pool grow/shrink keep address, Back placement moves content, neighbours untouched",
          bounds="unwind 14; bucket (12,4), old size 1..=12, new size 0..=14"),
        H("c15::c15_bump_bb_history", covers=2, timeout=900, mem_gb=4,
          what="bb-elementary BumpAllocator: 3 symbolic allocations; aligned, in-bounds, monotone, exact OOM",
          bounds="unwind 6; segment<=48B, misalign<16, request size<=20 align<=16"),
        H("c15::c15_one_chunk", covers=2, timeout=900, mem_gb=4,
          what="OneChunkAllocator: allocate/grow/deallocate; in-bounds, aligned, single chunk",
          bounds="unwind 20; segment<=32B, misalign<16, request size<=20 align<=16, grow to <=40"),
    ],
}

PROPS["C16"] = {
    "bounds": "vectors/queues: capacity 2 with 3-4 symbolic operations (quick), capacity 3 with 5-6 (thorough); "
              "values u8; every operation's index/length argument symbolic in 0..=capacity+1",
    "outside": "histories longer than 6 operations, capacities > 3 and capacity 0; serde (de)serialisation; "
               "Debug/Display formatting; PolymorphicString over other allocators",
    "assumptions": ["element drop order inside one operation is not compared, only exactly-once"],
    "harnesses": [
        H("c16::c16_static_vec_history", covers=2, timeout=1200, mem_gb=6, tiers=("quick",),
          what="StaticVec<Tracked,2>: push/pop/insert/remove/truncate/clear/extend_from_slice/resize_with vs model; drops",
          bounds="unwind 22; CAP 2, 4 steps"),
        H("c16::c16_static_vec_history_deep", covers=2, timeout=3600, mem_gb=12, tiers=("thorough",),
          what="StaticVec<Tracked,3>, 6 steps", bounds="unwind 22; CAP 3, 6 steps"),
        H("c16::c16_relocatable_vec_history", covers=2, timeout=1200, mem_gb=6, tiers=("quick",),
          what="RelocatableVec<Tracked> over a bump allocator in the same block", bounds="unwind 22; CAP 2, 4 steps"),
        H("c16::c16_relocatable_vec_history_deep", covers=2, timeout=3600, mem_gb=12, tiers=("thorough",),
          what="RelocatableVec<Tracked>, CAP 3, 6 steps", bounds="unwind 22; CAP 3, 6 steps"),
        H("c16::c16_polymorphic_vec_history", covers=2, timeout=1200, mem_gb=6, tiers=("quick",),
          what="PolymorphicVec<Tracked> over the bb pool allocator incl. try_clone and memory give-back",
          bounds="unwind 22; CAP 2, 3 steps"),
        H("c16::c16_polymorphic_vec_history_deep", covers=2, timeout=3600, mem_gb=12, tiers=("thorough",),
          what="PolymorphicVec<Tracked>, CAP 3, 5 steps", bounds="unwind 22; CAP 3, 5 steps"),
        H("c16::c16_fixed_size_queue_history", covers=2, timeout=1200, mem_gb=6, tiers=("quick",),
          what="FixedSizeQueue/RelocatableQueue<Tracked>: push/pop/push_with_overflow/clear/peek vs FIFO model; drops",
          bounds="unwind 22; CAP 2, 4 steps"),
        H("c16::c16_fixed_size_queue_history_deep", covers=2, timeout=3600, mem_gb=12, tiers=("thorough",),
          what="FixedSizeQueue<Tracked,3>, 6 steps", bounds="unwind 22; CAP 3, 6 steps"),
        H("c16::c16_owning_queue_history", covers=2, timeout=1200, mem_gb=6,
          what="heap-backed Queue<Tracked>", bounds="unwind 22; CAP 2, 4 steps"),
        H("c16::c16_queue_get", covers=1, timeout=900, mem_gb=4,
          what="FixedSizeQueue<u8,3>::get(i) for every fill level / ring phase", bounds="unwind 8; 5 steps"),
    ],
}
