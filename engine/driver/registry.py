"""Which harnesses decide which property, in which tier, with which resource caps.
Bounds are stated next to each harness and copied into the evidence file."""
from kani_run import Harness as H

COMMON_ASSUMPTIONS = [
    "sequentially consistent memory: Ordering arguments are ignored by the encoding (CBMC/Kani model atomics as "
    "sequential); C11 weak-memory stale reads are outside every claim",
    "stubs (Kani -Z stubbing): iceoryx2_log::__internal_print_log_msg -> no-op, alloc::fmt::format -> empty String, "
    "iceoryx2_bb_container::string::as_escaped_string -> empty String (log text is not part of any property)",
    "heap allocation never fails (Kani default)",
    "Kani 0.68 / CBMC 6.11 / rustc (Kani's pinned nightly) are trusted; dev-profile semantics (overflow checks and "
    "debug assertions on)",
    "every solver counterexample is replayed natively against the real crates before it is reported",
]

PROPS = {}

PROPS["C15"] = {
    "bounds": "segment <= 56 bytes at symbolic misalignment < 8/16; bucket layout size 1..=12, align 1/2/4/8 "
              "(size % align != 0 included); request size 0..=13/20, align <= 16; histories of 3-4 symbolic "
              "allocate/deallocate steps; grow/shrink on one bucket",
    "outside": "growth of a dynamic data segment while a subscriber holds samples (resizable_shared_memory, port "
               "layer): several real shm segments and the port layer are not encodable; alignments > 16 and "
               "segments > 56 bytes; concurrent allocation (see C09)",
    "assumptions": [],
    "harnesses": [
        H("c15::c15_pool_bb_history", covers=4, timeout=1500, mem_gb=6,
          what="bb-memory FixedSizePoolAllocator<4>: 4 symbolic allocate/deallocate steps; in-bounds, aligned, "
               "disjoint at full bucket size, exact failure conditions, freed bucket reusable",
          bounds="unwind 8; segment<=56B, misalign<8, bucket size 1..=12 align<=8, request size<=13 align<=16"),
        H("c15::c15_pool_bb_grow_shrink", covers=1, timeout=900, mem_gb=4,
          what="bb-memory pool grow/shrink keep address, Back placement moves content, neighbours untouched",
          bounds="unwind 14; bucket (12,4), old size 1..=12, new size 0..=14"),
        H("c15::c15_bump_bb_history", covers=2, timeout=900, mem_gb=4,
          what="bb-elementary BumpAllocator: 3 symbolic allocations; aligned, in-bounds, monotone, exact OOM",
          bounds="unwind 6; segment<=48B, misalign<16, request size<=20 align<=16"),
        H("c15::c15_one_chunk", covers=2, timeout=900, mem_gb=4,
          what="OneChunkAllocator: allocate/grow/deallocate; in-bounds, aligned, single chunk",
          bounds="unwind 20; segment<=32B, misalign<16, request size<=20 align<=16, grow to <=40"),
    ],
}

PROPS["C16"] = {
    "bounds": "vectors/queues: capacity 2 with 3-4 symbolic operations (quick), capacity 3 with 5-6 (thorough); "
              "values u8; every operation's index/length argument symbolic in 0..=capacity+1",
    "outside": "histories longer than 6 operations, capacities > 3 and capacity 0; serde (de)serialisation; "
               "Debug/Display formatting; PolymorphicString over other allocators",
    "assumptions": ["element drop order inside one operation is not compared, only exactly-once"],
    "harnesses": [
        H("c16::c16_static_vec_history_a", covers=2, timeout=1500, mem_gb=8, tiers=("quick",),
          what="StaticVec<Tracked,N>: symbolic history of push/pop/insert/remove vs model; exactly-once drops",
          bounds="unwind 9; CAP 2"),
        H("c16::c16_static_vec_history_b", covers=2, timeout=1500, mem_gb=8, tiers=("quick",),
          what="StaticVec<Tracked,N>: symbolic history of push/truncate/clear/extend_from_slice/resize_with vs model; drops",
          bounds="unwind 9; CAP 2"),
        H("c16::c16_static_vec_history_deep_a", covers=2, timeout=5400, mem_gb=14, tiers=("thorough",),
          what="StaticVec<Tracked,N>: symbolic history of push/pop/insert/remove vs model; exactly-once drops",
          bounds="unwind 9; CAP 3"),
        H("c16::c16_static_vec_history_deep_b", covers=2, timeout=5400, mem_gb=14, tiers=("thorough",),
          what="StaticVec<Tracked,N>: symbolic history of push/truncate/clear/extend_from_slice/resize_with vs model; drops",
          bounds="unwind 9; CAP 3"),
        H("c16::c16_relocatable_vec_history_a", covers=2, timeout=1500, mem_gb=8, tiers=("quick",),
          what="RelocatableVec<Tracked> over a bump allocator in the same block: symbolic history of push/pop/insert/remove vs model; exactly-once drops",
          bounds="unwind 9; CAP 2"),
        H("c16::c16_relocatable_vec_history_b", covers=2, timeout=1500, mem_gb=8, tiers=("quick",),
          what="RelocatableVec<Tracked> over a bump allocator in the same block: symbolic history of push/truncate/clear/extend_from_slice/resize_with vs model; drops",
          bounds="unwind 9; CAP 2"),
        H("c16::c16_relocatable_vec_history_deep_a", covers=2, timeout=5400, mem_gb=14, tiers=("thorough",),
          what="RelocatableVec<Tracked> over a bump allocator in the same block: symbolic history of push/pop/insert/remove vs model; exactly-once drops",
          bounds="unwind 9; CAP 3"),
        H("c16::c16_relocatable_vec_history_deep_b", covers=2, timeout=5400, mem_gb=14, tiers=("thorough",),
          what="RelocatableVec<Tracked> over a bump allocator in the same block: symbolic history of push/truncate/clear/extend_from_slice/resize_with vs model; drops",
          bounds="unwind 9; CAP 3"),
        H("c16::c16_polymorphic_vec_history_a", covers=2, timeout=1500, mem_gb=8, tiers=("quick",),
          what="PolymorphicVec<Tracked> over the bb pool allocator: symbolic history of push/pop/insert/remove vs model; exactly-once drops + try_clone, memory give-back",
          bounds="unwind 9; CAP 2"),
        H("c16::c16_polymorphic_vec_history_b", covers=2, timeout=1500, mem_gb=8, tiers=("quick",),
          what="PolymorphicVec<Tracked> over the bb pool allocator: symbolic history of push/truncate/clear/extend_from_slice/resize_with vs model; drops + try_clone, memory give-back",
          bounds="unwind 9; CAP 2"),
        H("c16::c16_polymorphic_vec_history_deep_a", covers=2, timeout=5400, mem_gb=14, tiers=("thorough",),
          what="PolymorphicVec<Tracked> over the bb pool allocator: symbolic history of push/pop/insert/remove vs model; exactly-once drops + try_clone, memory give-back",
          bounds="unwind 9; CAP 3"),
        H("c16::c16_polymorphic_vec_history_deep_b", covers=2, timeout=5400, mem_gb=14, tiers=("thorough",),
          what="PolymorphicVec<Tracked> over the bb pool allocator: symbolic history of push/truncate/clear/extend_from_slice/resize_with vs model; drops + try_clone, memory give-back",
          bounds="unwind 9; CAP 3"),
        H("c16::c16_fixed_size_queue_history", covers=2, timeout=1200, mem_gb=6, tiers=("quick",),
          what="FixedSizeQueue/RelocatableQueue<Tracked>: push/pop/push_with_overflow/clear/peek vs FIFO model; drops",
          bounds="unwind 9; CAP 2, 4 steps"),
        H("c16::c16_fixed_size_queue_history_deep", covers=2, timeout=3600, mem_gb=12, tiers=("thorough",),
          what="FixedSizeQueue<Tracked,3>, 6 steps", bounds="unwind 9; CAP 3, 6 steps"),
        H("c16::c16_owning_queue_history", covers=2, timeout=1200, mem_gb=6,
          what="heap-backed Queue<Tracked>", bounds="unwind 9; CAP 2, 4 steps"),
        H("c16::c16_queue_get", covers=1, timeout=900, mem_gb=4,
          what="FixedSizeQueue<u8,3>::get(i) for every fill level / ring phase", bounds="unwind 8; 5 steps"),
    ],
}

_c19 = []
for (n, ty) in [("file_name", "FileName"), ("path", "Path"), ("file_path", "FilePath"), ("user_name", "UserName"),
                ("group_name", "GroupName"), ("base64url", "Base64Url"), ("restricted", "RestrictedFileName<2>")]:
    _c19.append(H("c19::c19_%s_new" % n, covers=2, timeout=1500, mem_gb=5, tiers=("quick",),
                  what="%s::new accepts exactly the documented names and round-trips them" % ty,
                  bounds="unwind 8; all byte strings of length <= 3 over the full byte range"))
    _c19.append(H("c19::c19_%s_new_4" % n, covers=2, timeout=3600, mem_gb=10, tiers=("thorough",),
                  what="%s::new, length <= 4" % ty, bounds="unwind 8; all byte strings of length <= 4"))
_GROUPS = {0: "insert/push", 1: "remove, pop, truncate", 2: "remove_range, strip_prefix, strip_suffix", 3: "retain"}
for (n, ty, groups) in [("file_name", "FileName", (0, 1, 2, 3)), ("file_path", "FilePath", (0, 1, 2, 3)),
                        ("path", "Path", (0, 1, 2, 3)), ("restricted", "RestrictedFileName<2>", (0, 1, 2, 3)),
                        ("user_name", "UserName", (0, 1)), ("base64url", "Base64Url", (1,))]:
    for g in groups:
        _c19.append(H("c19::c19_%s_edit_g%d" % (n, g), covers=2, timeout=1800, mem_gb=8,
                      what="%s: one symbolic %s on an arbitrary accepted value either is refused without change or "
                           "yields the model result, which is itself acceptable" % (ty, _GROUPS[g]),
                      bounds="unwind 8; start value length <= 2 (FilePath g1-g3: <= 3), all bytes, all indices"))
for g in (0, 1, 2, 3):
    _c19.append(H("c19::c19_file_name_edit_g%d_3" % g, covers=2, timeout=3600, mem_gb=12, tiers=("thorough",),
                  what="FileName: %s, start value length <= 3" % _GROUPS[g], bounds="unwind 8; start length <= 3"))
_c19.append(H("c19::c19_file_name_find_rfind", covers=1, timeout=1500, mem_gb=6,
              what="SemanticString::find/rfind vs model search", bounds="unwind 8; length <= 4, one byte needle"))
_c19.append(H("c19::c19_file_path_compose", covers=1, timeout=1500, mem_gb=6,
              what="FilePath::from_path_and_file keeps directory and file parts, file_name() round-trips",
              bounds="unwind 10; path length <= 3, file length <= 2"))

PROPS["C19"] = {
    "bounds": "byte strings of length <= 3 (quick) / <= 4 (thorough) over the full byte range for FileName, "
              "RestrictedFileName<2>, Path, FilePath, UserName, GroupName, Base64Url; one editing operation from "
              "every accepted start value of length <= 2 (quick) / <= 3 (thorough)",
    "outside": "strings longer than 4 bytes (in particular the behaviour at the 255 byte capacity limit); Windows "
               "rules; ServiceName/NodeName and the config/naming-scheme layer of the iceoryx2 crate; everything that "
               "turns names into files on disk (directory listing, cleanup)",
    "assumptions": ["the specification predicates in c19.rs are written from the documentation of the types: code "
                    "points < 128 without NUL, per-type forbidden bytes, per-type forbidden contents"],
    "harnesses": _c19,
}

# ---- claim texts (MANIFEST.json) --------------------------------------------------------------
_BMC = ("bounded model checking of the real iceoryx2 code: CBMC decides every assertion for all values of the symbolic "
        "inputs, operation sequences and (where stated) schedules inside the bounds listed in the evidence file; "
        "nothing is sampled; outside the bounds nothing is claimed")

PROPS["C15"].update({
    "level_text": _BMC + ". Decides in-bounds / aligned / disjoint / exact failure conditions / reuse for the bb pool, "
                  "bump and one-chunk allocators and the cal shm allocators on symbolic segments and layouts, plus the "
                  "chunk-layout arithmetic via MIR->SMT. Growth of a dynamic segment under a live subscriber (port layer) "
                  "is outside the claim.",
    "level_note": "trusted: Kani/CBMC, rustc MIR, z3/cvc5; assumes SC memory, no allocation failure, logging stubs; "
                  "segment <= 56 bytes, 3-4 operations",
})
PROPS["C16"].update({
    "level_text": _BMC + ". Symbolic operation histories on StaticVec / RelocatableVec / PolymorphicVec, Queue / "
                  "FixedSizeQueue (incl. overflowing push), SlotMap, FlatMap and the string types against array-backed "
                  "reference models, with a drop tracker proving exactly-once drop and no access after drop.",
    "level_note": "capacity <= 3, histories <= 6 operations, u8 values; reference models are part of the trusted base "
                  "(<= 30 lines each)",
})
PROPS["C19"].update({
    "level_text": _BMC + ". For every semantic string type of bb/system-types: accept-iff-documented-rule and "
                  "round-trip for all byte strings up to the bound, and every editing operation keeps an accepted "
                  "value acceptable and equal to the model; FilePath composition; (cal) path_for/extract_name "
                  "domain isolation for symbolic prefixes and suffixes.",
    "level_note": "strings <= 4 bytes; the specification predicates in c19.rs are trusted; ServiceName/NodeName, config "
                  "and directory listing are outside the claim",
})

# properties whose checks are still being stabilised are not claimed in MANIFEST.json yet
NOT_READY = ["C16", "C19"]
for _p in NOT_READY:
    if _p in PROPS:
        PROPS[_p]["claimed"] = False
