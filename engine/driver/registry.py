"""Which harnesses decide which property, in which tier, with which resource caps.
Bounds are stated next to each harness and copied into the evidence file."""
import os
import sys

from kani_run import Harness as H

sys.path.insert(0, os.path.join(os.path.dirname(os.path.dirname(os.path.abspath(__file__))), "mir2smt"))


def _engine_m(select):
    def run(tier, logdir):
        import formulas
        res, _summary = formulas.main(tier, logdir, select)
        return res
    return run

COMMON_ASSUMPTIONS = [
    "sequentially consistent memory: Ordering arguments are ignored by the encoding (CBMC/Kani model atomics as "
    "sequential); C11 weak-memory stale reads are outside every claim",
    "stubs (Kani -Z stubbing): iceoryx2_log::__internal_print_log_msg -> no-op, alloc::fmt::format -> empty String, "
    "iceoryx2_bb_container::string::as_escaped_string -> empty String (log text is not part of any property); "
    "core::str::from_utf8 -> reference UTF-8 validator common::utf8_model (verdict validated natively against the real "
    "function on 1.19e9 strings by bin/validate_utf8_model during setup; the error payload is not modelled)",
    "heap allocation never fails (Kani default)",
    "Kani 0.68 / CBMC 6.11 / rustc (Kani's pinned nightly) are trusted; dev-profile semantics (overflow checks and "
    "debug assertions on)",
    "every solver counterexample is replayed natively against the real crates before it is reported",
]

PROPS = {}

# ---- per-loop unwinding bounds shared by several harnesses (see DESIGN.md section 12.8) ----
_BITSET_SEQ = {"bit_set&7set_bit": 2, "bit_set&9clear_bit": 2}
_ROBUST_SEQ = {"RobustUniqueIndexSet7acquire&.1": 2, "RobustUniqueIndexSet28increment_generation_counter": 2}
_ROBUST_RACE = {"RobustUniqueIndexSet7acquire&.1": 2, "RobustUniqueIndexSet7acquire&.0": 3,
                "RobustUniqueIndexSet7recover": 3, "RobustUniqueIndexSet28increment_generation_counter": 4}


PROPS["C15"] = {
    "bounds": "segment <= 56 bytes at symbolic misalignment < 8/16; bucket layout size 1..=12, align 1/2/4/8 "
              "(size % align != 0 included); request size 0..=13/20, align <= 16; histories of 3-4 symbolic "
              "allocate/deallocate steps; grow/shrink on one bucket",
    "outside": "growth of a dynamic data segment while a subscriber holds samples (resizable_shared_memory, port "
               "layer): several real shm segments and the port layer are not encodable; alignments > 16 and "
               "segments > 56 bytes; concurrent allocation (see C09)",
    "assumptions": [],
    "harnesses": [
        H("c15::c15_pool_bb_history", covers=4, timeout=1500, mem_gb=6,
          what="bb-memory FixedSizePoolAllocator<4>: 4 symbolic allocate/deallocate steps; in-bounds, aligned, "
               "disjoint at full bucket size, exact failure conditions, freed bucket reusable",
          bounds="unwind 8; segment<=56B, misalign<8, bucket size 1..=12 align<=8, request size<=13 align<=16"),
        H("c15::c15_pool_bb_grow_shrink", covers=1, timeout=900, mem_gb=4,
          what="bb-memory pool grow/shrink keep address, Back placement moves content, neighbours untouched",
          bounds="unwind 14; bucket (12,4), old size 1..=12, new size 0..=14"),
        H("c15::c15_bump_bb_history", covers=2, timeout=900, mem_gb=4,
          what="bb-elementary BumpAllocator: 3 symbolic allocations; aligned, in-bounds, monotone, exact OOM",
          bounds="unwind 6; segment<=48B, misalign<16, request size<=20 align<=16"),
        H("c15::c15_one_chunk", covers=2, timeout=900, mem_gb=4,
          what="OneChunkAllocator: allocate/grow/deallocate; in-bounds, aligned, single chunk",
          bounds="unwind 20; segment<=32B, misalign<16, request size<=20 align<=16, grow to <=40"),
    ],
}

PROPS["C16"] = {
    "bounds": "vectors/queues: capacity 2 with 3-4 symbolic operations (quick), capacity 3 with 5-6 (thorough); "
              "values u8; every operation's index/length argument symbolic in 0..=capacity+1",
    "outside": "histories longer than 6 operations, capacities > 3 and capacity 0; serde (de)serialisation; "
               "Debug/Display formatting; PolymorphicString over other allocators",
    "assumptions": ["element drop order inside one operation is not compared, only exactly-once"],
    "harnesses": [
        H("c16::c16_static_vec_history_a", covers=2, timeout=1500, mem_gb=8, tiers=("quick",),
          what="StaticVec<Tracked,N>: symbolic history of push/pop/insert/remove vs model; exactly-once drops",
          bounds="unwind 9; CAP 2"),
        H("c16::c16_static_vec_history_b", covers=2, timeout=1500, mem_gb=8, tiers=("quick",),
          what="StaticVec<Tracked,N>: symbolic history of push/truncate/clear/extend_from_slice/resize_with vs model; drops",
          bounds="unwind 9; CAP 2"),
        H("c16::c16_static_vec_history_deep_a", covers=2, timeout=5400, mem_gb=14, tiers=("thorough",),
          what="StaticVec<Tracked,N>: symbolic history of push/pop/insert/remove vs model; exactly-once drops",
          bounds="unwind 9; CAP 3"),
        H("c16::c16_static_vec_history_deep_b", covers=2, timeout=5400, mem_gb=14, tiers=("thorough",),
          what="StaticVec<Tracked,N>: symbolic history of push/truncate/clear/extend_from_slice/resize_with vs model; drops",
          bounds="unwind 9; CAP 3"),
        H("c16::c16_relocatable_vec_history_a", covers=2, timeout=1500, mem_gb=8, tiers=("quick",),
          what="RelocatableVec<Tracked> over a bump allocator in the same block: symbolic history of push/pop/insert/remove vs model; exactly-once drops",
          bounds="unwind 9; CAP 2"),
        H("c16::c16_relocatable_vec_history_b", covers=2, timeout=1500, mem_gb=8, tiers=("quick",),
          what="RelocatableVec<Tracked> over a bump allocator in the same block: symbolic history of push/truncate/clear/extend_from_slice/resize_with vs model; drops",
          bounds="unwind 9; CAP 2"),
        H("c16::c16_relocatable_vec_history_deep_a", covers=2, timeout=5400, mem_gb=14, tiers=("thorough",),
          what="RelocatableVec<Tracked> over a bump allocator in the same block: symbolic history of push/pop/insert/remove vs model; exactly-once drops",
          bounds="unwind 9; CAP 3"),
        H("c16::c16_relocatable_vec_history_deep_b", covers=2, timeout=5400, mem_gb=14, tiers=("thorough",),
          what="RelocatableVec<Tracked> over a bump allocator in the same block: symbolic history of push/truncate/clear/extend_from_slice/resize_with vs model; drops",
          bounds="unwind 9; CAP 3"),
        H("c16::c16_polymorphic_vec_history_a", covers=2, timeout=1500, mem_gb=8, tiers=("quick",),
          what="PolymorphicVec<Tracked> over the bb pool allocator: symbolic history of push/pop/insert/remove vs model; exactly-once drops + try_clone, memory give-back",
          bounds="unwind 9; CAP 2"),
        H("c16::c16_polymorphic_vec_history_b", covers=2, timeout=1500, mem_gb=8, tiers=("quick",),
          what="PolymorphicVec<Tracked> over the bb pool allocator: symbolic history of push/truncate/clear/extend_from_slice/resize_with vs model; drops + try_clone, memory give-back",
          bounds="unwind 9; CAP 2"),
        H("c16::c16_polymorphic_vec_history_deep_a", covers=2, timeout=5400, mem_gb=14, tiers=("thorough",),
          what="PolymorphicVec<Tracked> over the bb pool allocator: symbolic history of push/pop/insert/remove vs model; exactly-once drops + try_clone, memory give-back",
          bounds="unwind 9; CAP 3"),
        H("c16::c16_polymorphic_vec_history_deep_b", covers=2, timeout=5400, mem_gb=14, tiers=("thorough",),
          what="PolymorphicVec<Tracked> over the bb pool allocator: symbolic history of push/truncate/clear/extend_from_slice/resize_with vs model; drops + try_clone, memory give-back",
          bounds="unwind 9; CAP 3"),
        H("c16::c16_fixed_size_queue_history", covers=2, timeout=1200, mem_gb=6, tiers=("quick",),
          what="FixedSizeQueue/RelocatableQueue<Tracked>: push/pop/push_with_overflow/clear/peek vs FIFO model; drops",
          bounds="unwind 9; CAP 2, 4 steps"),
        H("c16::c16_fixed_size_queue_history_deep", covers=2, timeout=3600, mem_gb=12, tiers=("thorough",),
          what="FixedSizeQueue<Tracked,3>, 6 steps", bounds="unwind 9; CAP 3, 6 steps"),
        H("c16::c16_owning_queue_history", covers=2, timeout=1200, mem_gb=6,
          what="heap-backed Queue<Tracked>", bounds="unwind 9; CAP 2, 4 steps"),
        H("c16::c16_queue_get", covers=1, timeout=900, mem_gb=4,
          what="FixedSizeQueue<u8,3>::get(i) for every fill level / ring phase", bounds="unwind 8; 5 steps"),
        H("c16::c16_fixed_slotmap_history", unwindset={"next_available_key_after": 3}, covers=3, timeout=7200, mem_gb=30, tiers=("thorough",),
          what="FixedSizeSlotMap<Tracked,2>: insert/insert_at/remove/get/contains/next_free_key/iteration vs model; drops",
          bounds="unwind 9; CAP 2, 3 steps, keys 0..=CAP"),
        H("c16::c16_owning_slotmap_history", unwindset={"next_available_key_after": 3}, covers=3, timeout=1500, mem_gb=8, tiers=("quick",),
          what="heap-backed SlotMap<Tracked>(2), same obligations", bounds="unwind 9; CAP 2, 3 steps"),
        H("c16::c16_owning_slotmap_history_deep", unwindset={"next_available_key_after": 3}, covers=3, timeout=7200, mem_gb=24, tiers=("thorough",),
          what="heap-backed SlotMap<Tracked>(2), 5 steps", bounds="unwind 9; CAP 2, 5 steps"),
        H("c16::c16_flatmap_history", unwindset={"next_available_key_after": 3}, covers=2, timeout=1500, mem_gb=8, tiers=("quick",),
          what="heap-backed FlatMap<u8,Tracked>(2): insert (duplicate / full errors)/remove/get/get_ref/contains/list_keys vs model",
          bounds="unwind 9; CAP 2, 3 steps, 3 keys"),
        H("c16::c16_flatmap_history_deep", unwindset={"next_available_key_after": 3}, covers=2, timeout=7200, mem_gb=24, tiers=("thorough",),
          what="FlatMap, 5 steps", bounds="unwind 9; CAP 2, 5 steps"),
        H("c16::c16_fixed_flatmap_history", unwindset={"next_available_key_after": 3}, covers=2, timeout=7200, mem_gb=30, tiers=("thorough",),
          what="FixedSizeFlatMap<u8,Tracked,2> (relocatable flavour), 3 steps", bounds="unwind 9; CAP 2, 3 steps"),
        H("c16::c16_string_history_grow", covers=2, timeout=1500, mem_gb=8, tiers=("quick",),
          what="StaticString<3>: push/insert/insert_bytes/pop over the full byte range vs model; NUL termination",
          bounds="unwind 9; CAP 3, 4 steps"),
        H("c16::c16_string_history_shrink", covers=1, timeout=1500, mem_gb=8, tiers=("quick",),
          what="StaticString<3>: push/remove/remove_range/find/rfind/truncate/strip_prefix/strip_suffix vs model",
          bounds="unwind 9; CAP 3, 4 steps"),
        H("c16::c16_string_history_grow_deep", covers=2, timeout=5400, mem_gb=14, tiers=("thorough",),
          what="StaticString<3> growing ops, 6 steps", bounds="unwind 9; 6 steps"),
        H("c16::c16_string_history_shrink_deep", covers=1, timeout=5400, mem_gb=14, tiers=("thorough",),
          what="StaticString<3> shrinking ops, 6 steps", bounds="unwind 9; 6 steps"),
        H("c16::c16_string_find_model", covers=2, timeout=1500, mem_gb=6,
          what="StaticString::find/rfind with needles of 1..=3 bytes vs a naive search (two letter alphabet: every "
               "overlap pattern)", bounds="unwind 9; haystack <= 4 bytes, needle <= 3 bytes"),
        H("c16::c16_string_retain_clear", covers=1, timeout=900, mem_gb=4,
          what="StaticString<3>::retain/clear on every string of length <= 3", bounds="unwind 9"),
    ],
}

_c19 = []
for (n, ty) in [("file_name", "FileName"), ("path", "Path"), ("file_path", "FilePath"), ("user_name", "UserName"),
                ("group_name", "GroupName"), ("base64url", "Base64Url"), ("restricted", "RestrictedFileName<2>")]:
    _c19.append(H("c19::c19_%s_new" % n, covers=2, timeout=1500, mem_gb=5, tiers=("quick",),
                  what="%s::new accepts exactly the documented names and round-trips them" % ty,
                  bounds="unwind 8; all byte strings of length <= 3 over the full byte range"))
    _c19.append(H("c19::c19_%s_new_4" % n, covers=2, timeout=3600, mem_gb=10, tiers=("thorough",),
                  what="%s::new, length <= 4" % ty, bounds="unwind 8; all byte strings of length <= 4"))
_GROUPS = {0: "insert/push", 1: "remove, pop, truncate", 2: "remove_range, strip_prefix, strip_suffix", 3: "retain"}
for (n, ty, groups) in [("file_name", "FileName", (0, 1, 2, 3)), ("file_path", "FilePath", (0, 1, 2, 3)),
                        ("path", "Path", (0, 1, 2, 3)), ("restricted", "RestrictedFileName<2>", (0, 1, 2, 3)),
                        ("user_name", "UserName", (0, 1)), ("base64url", "Base64Url", (1,))]:
    for g in groups:
        small = n == "restricted"
        # the full-size types are 255-byte strings: ~8 M variables per editing operation (array theory), 20+ GB;
        # RestrictedFileName<2> runs the same generic SemanticString code with FileName's rules in the quick tier
        _c19.append(H("c19::c19_%s_edit_g%d" % (n, g), covers=2, timeout=1800 if small else 3600,
                      mem_gb=8 if small else 22, tiers=("quick", "thorough") if small else ("thorough",),
                      what="%s: one symbolic %s on an arbitrary accepted value either is refused without change or "
                           "yields the model result, which is itself acceptable" % (ty, _GROUPS[g]),
                      bounds="unwind 8; start value length <= 2 (FilePath g1-g3: <= 3), all bytes, all indices"))
for g in (0, 1, 2, 3):
    _c19.append(H("c19::c19_file_name_edit_g%d_3" % g, covers=2, timeout=5400, mem_gb=26, tiers=("thorough",),
                  what="FileName: %s, start value length <= 3" % _GROUPS[g], bounds="unwind 8; start length <= 3"))
_c19.append(H("c19::c19_file_name_find_rfind", covers=1, timeout=1500, mem_gb=6,
              what="SemanticString::find/rfind vs model search", bounds="unwind 8; length <= 4, one byte needle"))
_c19.append(H("c19::c19_file_path_compose", covers=1, timeout=5400, mem_gb=26, tiers=("thorough",),
              what="FilePath::from_path_and_file keeps directory and file parts, file_name() round-trips",
              bounds="unwind 10; path length <= 3, file length <= 2"))

PROPS["C19"] = {
    "bounds": "byte strings of length <= 3 (quick) / <= 4 (thorough) over the full byte range for FileName, "
              "RestrictedFileName<2>, Path, FilePath, UserName, GroupName, Base64Url; one editing operation from "
              "every accepted start value of length <= 2 (quick: RestrictedFileName<2>; thorough: also the 255-byte "
              "types, start length <= 3); ServiceName <= 8 bytes, NodeName <= 4 bytes; domain isolation for prefixes and "
              "names of 1-2 bytes, 4 roots",
    "outside": "strings longer than 4 bytes (in particular the behaviour at the 255 byte capacity limit); Windows "
               "rules; the config/naming-scheme layer of the iceoryx2 crate; everything that turns names into files on "
               "disk (directory listing, cleanup)",
    "assumptions": ["the specification predicates in c19.rs are written from the documentation of the types: code "
                    "points < 128 without NUL, per-type forbidden bytes, per-type forbidden contents"],
    "harnesses": _c19,
}


_c03 = []
for (n, what, b) in [
    ("c03_seq_index_queue", "FixedSizeIndexQueue<2>", "unwind 9; 6 symbolic ops"),
    ("c03_seq_overflow_queue", "FixedSizeSafelyOverflowingIndexQueue<2>", "unwind 9; 6 symbolic ops"),
    ("c03_seq_spsc_queue", "spsc::Queue<u64,2>", "unwind 9; 6 symbolic ops"),
    ("c03_seq_index_queue_owning", "heap-backed IndexQueue(2)", "unwind 9; 5 symbolic ops"),
    ("c03_seq_overflow_queue_owning", "heap-backed SafelyOverflowingIndexQueue(2)", "unwind 9; 5 symbolic ops"),
    ("c03_seq_index_queue_cap1", "FixedSizeIndexQueue<1>", "unwind 9; 5 symbolic ops"),
    ("c03_seq_overflow_queue_cap1", "FixedSizeSafelyOverflowingIndexQueue<1>", "unwind 9; 5 symbolic ops"),
]:
    _c03.append(H("c03::" + n, covers=2, timeout=900, mem_gb=4,
                  what="sequential refinement of %s against a FIFO model (push/pop/evict, len, is_empty, is_full), "
                       "symbolic values, final drain" % what, bounds=b))
for (n, what) in [("c03_seq_index_queue_cap3", "FixedSizeIndexQueue<3>"),
                  ("c03_seq_overflow_queue_cap3", "FixedSizeSafelyOverflowingIndexQueue<3>"),
                  ("c03_seq_spsc_queue_cap3", "spsc::Queue<u64,3>")]:
    _c03.append(H("c03::" + n, covers=2, timeout=3600, mem_gb=8, tiers=("thorough",),
                  what="sequential refinement of %s, 8 symbolic ops" % what, bounds="unwind 11; 8 symbolic ops"))
_c03.append(H("c03::c03_handover", covers=0, timeout=600, mem_gb=3,
              what="producer/consumer hand-over: one handle per role at a time, re-acquirable after drop",
              bounds="unwind 6"))
for (q, qn) in [("overflow", "FixedSizeSafelyOverflowingIndexQueue<2>"), ("index", "FixedSizeIndexQueue<2>"),
                ("spsc", "spsc::Queue<u64,2>")]:
    for (role, rn) in [("producer_outer", "producer preempted at each of its shared-memory operations, consumer runs "
                                          "complete pops in the gaps"),
                       ("consumer_outer", "consumer preempted at each of its shared-memory operations, producer runs "
                                          "complete pushes in the gaps")]:
        nc = 1 if (role == "consumer_outer" and q != "overflow") else 2
        _c03.append(H("c03::sched::c03_s_%s_%s" % (q, role), crate="hs", covers=nc, timeout=1500, mem_gb=8, tiers=("quick",),
                      what="%s: %s; conservation, FIFO order, capacity, legitimate failures" % (qn, rn),
                      bounds="unwind 10; 2 outer operations, <= 1-2 inner operations, every preemption point"))
        _c03.append(H("c03::sched::c03_s_%s_%s_deep" % (q, role), crate="hs", covers=nc, timeout=5400, mem_gb=14,
                      tiers=("thorough",),
                      what="%s: %s (3 outer operations, 2-3 inner)" % (qn, rn),
                      bounds="unwind 10; 3 outer operations, <= 2-3 inner operations"))
for role in ("producer_outer", "consumer_outer"):
    _c03.append(H("c03::sched::c03_s_overflow_cap1_%s" % role, crate="hs", covers=2, timeout=5400, mem_gb=14,
                  tiers=("thorough",), what="overflow queue with capacity 1, 3 outer / 2 inner operations",
                  bounds="unwind 10"))

PROPS["C03"] = {
    "bounds": "capacity 1..=3; sequential histories of 5-8 symbolic operations with symbolic u64 values; schedules: one "
              "thread preempted before any of its shared-memory operations (atomics and slot accesses), the other "
              "thread runs up to 1-3 complete operations in each gap (nested preemption), both role assignments, "
              "2-3 operations per thread",
    "outside": "C11 weak-memory behaviours (SC only); schedules where both threads are in the middle of an operation "
               "at the same time more than one level deep; more than 3 operations per thread; cursor values >= 2^63; "
               "the end-to-end connection data path (does not fit the solver): 'release never fails' is decided as "
               "queue capacity (MIR->SMT) + queue push succeeds below capacity (FIFO refinement), the bound on offsets in "
               "flight is an argument",
    "assumptions": ["values pushed are distinct and increasing (1, 2, 3, ...) in the schedule harnesses so that "
                    "order and conservation are observable"],
    "harnesses": _c03,
    "claimed": False,
}


_c14 = []
for (n, ty, k) in [("index_queue", "FixedSizeIndexQueue<2>", 3), ("overflow_queue", "FixedSizeSafelyOverflowingIndexQueue<2>", 3),
                   ("unique_index_set", "FixedSizeUniqueIndexSet<3>", 3), ("robust_index_set", "StaticRobustUniqueIndexSet<2>", 2),
                   ("bit_set", "FixedSizeBitSet<9>", 2), ("counting_bit_set", "FixedSizeCountingBitSet<3>", 3),
                   ("container", "FixedSizeContainer<u32,2> (add/remove)", 2), ("static_vec", "StaticVec<u8,3>", 3),
                   ("relocatable_vec", "RelocatableVec<u8> + data in one block", 3), ("queue", "FixedSizeQueue<u8,2>", 3),
                   ("string", "StaticString<3>", 3), ("slot_map", "FixedSizeSlotMap<u8,2>", 3),
                   ("flat_map", "FixedSizeFlatMap<u8,u8,2>", 3)]:
    heavy = n in ("slot_map", "flat_map")
    _uw = {"bit_set": _BITSET_SEQ, "robust_index_set": _ROBUST_SEQ,
           "container": dict(_ROBUST_SEQ, **{"bump_allocator&8allocate": 2}),
           "slot_map": {"next_available_key_after": 3}, "flat_map": {"next_available_key_after": 3}}.get(n)
    _c14.append(H("c14::c14_" + n, covers=1, unwindset=_uw, timeout=7200 if heavy else 2400,
                  mem_gb=30 if (heavy or n == "container") else (12 if n in ("robust_index_set", "bit_set") else 8),
                  tiers=("thorough",) if (heavy or n in ("bit_set", "container")) else ("quick", "thorough"),
                  what="%s: %d symbolic operations, byte-copy to a fresh block at a symbolic point of the history "
                       "(old block scribbled and freed), lock-step comparison with a twin that stayed" % (ty, k),
                  bounds="unwind 8-12; %d operations, relocation point symbolic" % k))
_c14.append(H("c14::c14_overflow_queue_cap1", covers=1, timeout=1800, mem_gb=8,
              what="FixedSizeSafelyOverflowingIndexQueue<1>: fill / overflow / push again around the relocation point "
                   "(the overflow path fits into three operations at capacity 1)",
              bounds="unwind 8; 3 operations, relocation point symbolic"))
_c14.append(H("c14::c14_relocatable_pointer", covers=0, timeout=600, mem_gb=3,
              what="RelocatablePointer::as_ptr follows its block by exactly the placement delta",
              bounds="distance < 16"))
PROPS["C14"] = {
    "bounds": "3-4 symbolic operations per structure with the relocation point anywhere in the history; capacities 2-3 "
              "(bit set 10, crossing the 8-bit element boundary)",
    "outside": "ContainerState snapshots (process local by design); types holding OwningPointer (not meant for shared "
               "memory); histories longer than 4 operations; the shm allocators keep an absolute base address by design "
               "and are checked relationally under C15/cal",
    "assumptions": ["a byte-wise copy to a fresh heap block models mapping the segment at a different address"],
    "harnesses": _c14,
    "extra": [],
    "claimed": False,
}

# RobustUniqueIndexSet::acquire: loop .0 is the scan over the cells (capacity + 1 unwindings), loop .1 the retry when
# the generation counter moved during the scan.  In the sequential harnesses nothing moves (bound 2), in the recovery
# race acquire only runs as an uninterrupted inner operation (bound 2 as well).  Recovery race, capacity 2: scans need
# 3 unwindings; the generation-counter CAS of the preempted recovery can fail once per inner operation (budget 2):
# bound 4.  Unwinding assertions stay on for every one of these loops.
PROPS["C09"] = {
    "bounds": "capacities 1..=4, sequential histories of 4-6 symbolic acquire/release(lock-if-last) operations; robust "
              "set with 2 owners incl. recover; schedules: outer thread preempted before any shared-memory operation, "
              "inner thread runs up to 3-4 complete acquire/release operations in the gaps (incl. the ABA shape)",
    "outside": "C11 weak-memory behaviours; wrap of the 16-bit ABA tag (needs 65536 operations inside one stall); 3 "
               "threads; pool allocator under a symbolic schedule",
    "assumptions": [],
    "harnesses": [
        H("c09::c09_uis_history_cap2", covers=3, timeout=900, mem_gb=4,
          what="FixedSizeUniqueIndexSet<2>: symbolic acquire/release history vs set model; lock-if-last; leak freedom",
          bounds="unwind 8; 5 steps"),
        H("c09::c09_uis_history_cap1", covers=3, timeout=900, mem_gb=4, what="capacity 1", bounds="unwind 8; 4 steps"),
        H("c09::c09_uis_history_cap3", covers=3, timeout=3600, mem_gb=8, tiers=("thorough",), what="capacity 3",
          bounds="unwind 8; 6 steps"),
        H("c09::c09_uis_history_cap4", covers=3, timeout=3600, mem_gb=8, tiers=("thorough",), what="capacity 4",
          bounds="unwind 8; 6 steps"),
        H("c09::c09_uis_raii", covers=0, timeout=600, mem_gb=3, what="UniqueIndex RAII gives the index back on drop",
          bounds="unwind 8"),
        H("c09::c09_robust_history_cap2", covers=3, timeout=1500, mem_gb=10, unwindset=_ROBUST_SEQ,
          what="StaticRobustUniqueIndexSet<2>: acquire/release(owner, mode)/recover(dead owner) history vs owner model",
          bounds="unwind 8; 3 steps (add/remove), 2 owners"),
        H("c09::c09_robust_history_cap3", covers=4, timeout=5400, mem_gb=22, tiers=("thorough",), unwindset=_ROBUST_SEQ,
          what="robust set, capacity 3", bounds="unwind 5; 4 steps"),
        H("c09::sched::c09_s_uis_race_cap2", crate="hs", covers=2, timeout=2400, mem_gb=14, tiers=("quick", "thorough"),
          what="two threads racing acquire/release on the real free list; exclusivity, bounds, legitimate failures, "
               "leak freedom; ABA shape witnessed", bounds="unwind 5; capacity 2, 1 outer operation (acquire, or release of an index held before the race) preempted before any of its atomic operations, up to 2 inner operations (one may run before)"),
        H("c09::sched::c09_s_uis_race_cap2_lock", crate="hs", covers=2, timeout=2400, mem_gb=14, tiers=("quick", "thorough"),
          what="same race with every release in LockIfLastIndex mode: Locked reported iff the set is locked afterwards, "
               "no acquire succeeds after a reported lock, the last release locks",
          bounds="unwind 5; capacity 2, 1 outer operation (acquire, or release of an index held before the race) preempted before any of its atomic operations, up to 2 inner operations (one may run before)"),
        H("c09::sched::c09_s_uis_race_cap2_lock_deep", crate="hs", covers=2, timeout=7200, mem_gb=30, tiers=("thorough",),
          what="lock-if-last race, 1 outer / 3 inner operations, preemption also before cell accesses", bounds="unwind 7"),
        H("c09::sched::c09_s_robust_recover_vs_recover", crate="hs", covers=2, timeout=4500, mem_gb=14, tiers=("thorough",),
          unwindset=_ROBUST_RACE,
          what="robust set: recovery of a dead owner preempted at every atomic operation while a second recoverer and an "
               "acquiring live owner run up to 2 complete operations in the gaps: exactly the dead owner's indices, each "
               "handed to exactly one recoverer, an index acquired in between is never taken away", bounds="unwind 5; capacity 2, dead owner holds 1-2 indices, 2 inner operations"),
        H("c09::sched::c09_s_robust_recover_vs_owner", crate="hs", covers=2, timeout=3600, mem_gb=12, tiers=("thorough",),
          unwindset=_ROBUST_RACE,
          what="same recovery while a live owner acquires / releases in the gaps: the live owner keeps what it acquires, "
               "recovery never returns one of its indices, its releases are accepted",
          bounds="unwind 5; capacity 2, 2 inner operations"),
        H("c09::sched::c09_s_robust_recover_race", crate="hs", covers=2, timeout=7200, mem_gb=16, tiers=("thorough",),
          unwindset=_ROBUST_RACE,
          what="both kinds of inner operations mixed (second recoverer and live owner)",
          bounds="unwind 5; capacity 2, 2 inner operations"),
        H("c09::sched::c09_s_robust_recover_race_deep", crate="hs", covers=2, timeout=7200, mem_gb=16, tiers=("thorough",),
          unwindset=_ROBUST_RACE,
          what="robust recovery race with 3 inner operations", bounds="unwind 6"),
        H("c09::sched::c09_s_uis_race_cap1", crate="hs", covers=1, timeout=3600, mem_gb=8, tiers=("thorough",),
          what="same, capacity 1", bounds="unwind 6; 1 outer / 2 inner operations"),
        H("c09::sched::c09_s_uis_race_cap3_deep", crate="hs", covers=2, timeout=7200, mem_gb=30, tiers=("thorough",),
          what="capacity 2, 1 outer / 3 inner operations, preemption also before free-list cell accesses", bounds="unwind 7"),
    ],
    "claimed": False,
}

PROPS["C12"] = {
    "bounds": "payload [u32;2] = (i, !i); writer <= 3 stores (copy and loan-style two-step), reader <= 3 loads; the "
              "reader's copy is split into two halves with a scheduling point in between; raw layouts: size <= 12, "
              "alignment <= 8, block misalignment < 8",
    "outside": "C11 weak-memory behaviours; both threads in the middle of an operation at the same time beyond one "
               "nesting level; value sizes > 12 bytes; write_cell near u64::MAX; the port layer (writer.rs/reader.rs)",
    "assumptions": ["core::ptr::copy_nonoverlapping is replaced by a byte loop (Kani stub), split in the middle for the "
                    "schedule harnesses"],
    "harnesses": [
        H("c12::c12_seq_store_load", covers=0, timeout=900, mem_gb=4,
          what="sequential: store (both flavours) / load round trip, unpublished write invisible, single producer",
          bounds="unwind 10; 3 stores"),
        H("c12::c12_seq_raw_layout_align1", covers=1, timeout=1500, mem_gb=8,
          what="raw management API (run-time type details), alignment 1: management block and both cells aligned, "
               "disjoint, inside the computed size (address arithmetic, every misalignment of the raw memory)",
          bounds="unwind 14; size 1..=3, misalign<8"),
        H("c12::c12_seq_raw_layout_align4", covers=1, timeout=1500, mem_gb=8,
          what="same, alignment 4", bounds="unwind 14; size 4/8/12, misalign<8"),
        H("c12::c12_seq_raw_layout_align8", covers=1, timeout=1500, mem_gb=8,
          what="same, alignment 8", bounds="unwind 14; size 8, misalign<8"),
        H("c12::c12_seq_raw_roundtrip_a1_s3_m7", covers=1, timeout=1500, mem_gb=8,
          what="raw store / publish / load round trip twice, arbitrary bytes; alignment 1, size 3, raw memory misaligned by 7",
          bounds="unwind 14; 2 stores; concrete size/alignment/misalignment"),
        H("c12::c12_seq_raw_roundtrip_a4_s12_m5", covers=1, timeout=3600, mem_gb=34, tiers=("thorough",),
          what="same; alignment 4, size 12, misaligned by 5", bounds="unwind 14; 2 stores"),
        H("c12::c12_seq_raw_roundtrip_a8_s8_m1", covers=1, timeout=1500, mem_gb=14,
          what="same; alignment 8, size 8, misaligned by 1", bounds="unwind 14; 2 stores"),
        H("c12::sched::c12_s_reader_outer", crate="hs", covers=3, timeout=1800, mem_gb=10, tiers=("quick",),
          what="reader preempted at every shared operation and in the middle of its copy; writer runs complete stores: "
               "no torn value, monotone, not older than completed stores", bounds="unwind 6; 2 loads, <=2 writer actions (store / write loan / publish loan)"),
        H("c12::sched::c12_s_writer_outer", crate="hs", covers=1, timeout=1800, mem_gb=10, tiers=("quick",),
          what="writer preempted at every shared operation; reader runs complete loads inside the stores",
          bounds="unwind 6; 1 store (copy or two-step), <=2 loads"),
        H("c12::sched::c12_s_reader_outer_deep", crate="hs", covers=3, timeout=7200, mem_gb=16, tiers=("thorough",),
          what="2 loads, <=3 writer actions", bounds="unwind 7"),
        H("c12::sched::c12_s_writer_outer_deep", crate="hs", covers=1, timeout=7200, mem_gb=16, tiers=("thorough",),
          what="2 stores, <=2 loads", bounds="unwind 7"),
        H("c12::sched::c12_s_single_writer_race", crate="hs", covers=2, timeout=900, mem_gb=4,
          what="two threads racing acquire_producer never both succeed", bounds="unwind 6"),
    ],
    "claimed": False,
}


# ---- harnesses that need iceoryx2-cal (feature `cal`) -------------------------------------------
CAL = ("cal",)
PROPS["C15"]["harnesses"] += [
    H("cal::c15cal::c15_pointer_offset_roundtrip", features=CAL, covers=0, timeout=600, mem_gb=3,
      what="PointerOffset packs 56-bit offset + 8-bit segment id without loss; set_segment_id keeps the offset",
      bounds="all offsets < 2^56, all ids"),
    H("cal::c15cal::c15_shm_pool_history", features=CAL, covers=3, timeout=1800, mem_gb=8,
      what="cal shm PoolAllocator through segment-relative offsets: 4 symbolic allocate/deallocate steps; in-bounds, "
           "aligned, disjoint, exact failures, reuse", bounds="unwind 8; segment<=48B, bucket size 1..=12 align<=8"),
    H("cal::c15cal::c15_shm_pool_grow", features=CAL, covers=1, timeout=1800, mem_gb=8,
      what="cal shm PoolAllocator grow inside the bucket: same offset, content kept / moved to the back (overlapping "
           "moves included), neighbour untouched, documented errors", bounds="unwind 14; bucket (12,4), sizes 1..=14"),
    H("cal::c15cal::c15_shm_pool_resize_hint", features=CAL, covers=1, timeout=1500, mem_gb=6,
      what="resize_hint for Static/BestFit/PowerOfTwo: hinted layout admits the request, never shrinks, Static "
           "changes nothing", bounds="bucket size<=16 align<=8, request size<=40 align<=32, 0-2 used buckets"),
    H("cal::c15cal::c15_shm_bump_history", features=CAL, covers=2, timeout=1800, mem_gb=8,
      what="cal shm BumpAllocator: 2 symbolic allocations + grow (in place / relocating, Front/Back) keep content",
      bounds="unwind 16; segment<=40B, request size<=12 align<=16, grow by 1..=6"),
]
PROPS["C14"]["harnesses"] += [
    H("cal::c15cal::c14_shm_pool_relocation", features=CAL, covers=1, timeout=1800, mem_gb=10,
      what="shm PoolAllocator + management memory + payload stand-in in one block, byte-copied to a fresh address at a "
           "symbolic point of an allocate/deallocate history: same offsets as the twin that stayed, and the old mapping "
           "(scribbled, kept alive) is never written: the creator's start address is used as a number only",
      bounds="unwind 8; 4 buckets, 3 operations, relocation point symbolic"),
    H("cal::c15cal::c14_shm_pool_relational", features=CAL, covers=1, timeout=1800, mem_gb=8,
      what="shm pool allocator: the same 3-step history over two differently placed segments yields identical offsets",
      bounds="unwind 8; placements shifted by 0/16/32 bytes"),
]
# the system types are 255-byte strings: CBMC keeps arrays above 64 elements as one array-theory object; raising the
# field-sensitivity limit makes every byte its own SSA symbol, so accesses at concrete positions cost nothing
_FS256 = ("--max-field-sensitivity-array-size", "300")
_ISO_B = "unwind 12; prefixes and names of exactly 2 bytes from [a-z0-9_] (lengths concrete, bytes symbolic)"
PROPS["C19"]["harnesses"] += [
    # the file name / path is written down directly and each harness makes one to three calls of the real
    # extract_name_from_file / extract_name_from_path (255-byte strings: every call costs millions of variables);
    # quick tier: one call each (foreign prefix, prefix of a prefix); thorough: round trip, suffix, mixed lengths, and
    # c19_path_for_shape, which ties the directly written form to what path_for really produces
    H("cal::c19iso::c19_foreign_prefix_direct", features=CAL, covers=1, timeout=2400, mem_gb=20, tiers=("quick",),
      what="extract_name_from_file, the isolation statement itself: a domain with an unrelated prefix never extracts a "
           "name from the file of another domain", bounds=_ISO_B),
    H("cal::c19iso::c19_path_for_shape", features=CAL, covers=0, timeout=3600, mem_gb=18, tiers=("thorough",),
      what="NamedConceptConfiguration::path_for produces exactly <root>/<prefix><name><suffix> (lies under the root)",
      bounds=_ISO_B),
    H("cal::c19iso::c19_cross_domain_direct", features=CAL, covers=2, timeout=3600, mem_gb=22, tiers=("thorough",),
      what="extract_name_from_file: a name round-trips through its own domain; a domain with an unrelated prefix or a "
           "different suffix never extracts a name from the file", bounds=_ISO_B),
    H("cal::c19iso::c19_cross_domain_direct_mixed_len", features=CAL, covers=2, timeout=3600, mem_gb=22, tiers=("thorough",),
      what="same with prefixes of different length (1 and 2 bytes): non-interference whenever neither prefix is a "
           "prefix of the other", bounds="unwind 12; prefix lengths 1/2, names of 2 bytes"),
    H("cal::c19iso::c19_cross_domain_direct_prefix_of_prefix", features=CAL, covers=0, timeout=2400, mem_gb=20,
      tiers=("quick",), known="F-C19-1",
      what="the class excluded above: one prefix is a proper prefix of the other (open known finding F-C19-1)",
      bounds="unwind 12; prefix lengths 1/2, names of 2 bytes"),
    H("cal::c19iso::c19_root_direct_own_and_unrelated", features=CAL, covers=0, timeout=5400, mem_gb=10, tiers=("thorough",),
      what="extract_name_from_path: own root recognised (name round-trips), unrelated root never matches", bounds=_ISO_B),
    H("cal::c19iso::c19_root_direct_nested", features=CAL, covers=0, timeout=5400, mem_gb=10, tiers=("thorough",),
      what="a nested root never matches, in either direction", bounds=_ISO_B),
    H("cal::c19iso::c19_root_direct_sibling", features=CAL, covers=0, timeout=5400, mem_gb=10, tiers=("thorough",),
      what="a sibling root that is a string prefix (/r vs /rr) never matches", bounds=_ISO_B),
    H("cal::c19iso::c19_root_direct_same_spelling", features=CAL, covers=0, timeout=5400, mem_gb=10, tiers=("thorough",),
      what="an equivalent spelling of the root (/r/) is the same domain", bounds=_ISO_B),
    # thorough tier: the same statements through path_for + FilePath::file_name (25-30 M variables each)
    H("cal::c19iso::c19_domain_isolation", features=CAL, covers=2, timeout=5400, mem_gb=30, tiers=("thorough",),
      what="NamedConceptConfiguration::path_for / extract_name_from_file / extract_name_from_path: own names "
           "round-trip; domains with unrelated prefixes, different suffix or different root never see the file",
      bounds=_ISO_B),
    H("cal::c19iso::c19_domain_isolation_mixed_len", features=CAL, covers=2, timeout=5400, mem_gb=30, tiers=("thorough",),
      what="same with prefixes of different length (1 and 2 bytes)", bounds="unwind 12; prefix lengths 1/2, names of 2 bytes"),
    H("cal::c19iso::c19_root_isolation", features=CAL, covers=1, timeout=7200, mem_gb=30, tiers=("thorough",),
      what="extract_name_from_path through path_for: a different root (unrelated, nested, sibling string-prefix) never "
           "matches in either direction; an equivalent spelling of the root is the same domain",
      bounds="unwind 12; names of 1-2 bytes, 3 foreign roots"),
    H("cal::c19iso::c19_domain_isolation_prefix_of_prefix", features=CAL, covers=0, timeout=5400, mem_gb=30,
      tiers=("thorough",), known="F-C19-1",
      what="one prefix is a proper prefix of the other, through path_for (open known finding F-C19-1)",
      bounds="unwind 12; prefix lengths 1/2, names of 2 bytes"),
]

PROPS["C19"]["harnesses"] += [
    H("c19svc::c19_service_name_new", features=("iox2",), covers=2, timeout=2400, mem_gb=10,
      what="ServiceName::new (iceoryx2 crate): accepted iff non-empty, code points < 128 without NUL, not starting "
           "with the reserved prefix iox2://; round trip", bounds="unwind 10; all UTF-8 strings of <= 8 bytes"),
    H("c19svc::c19_node_name_new", features=("iox2",), covers=2, timeout=2400, mem_gb=10,
      what="NodeName::new: accepted iff code points < 128 without NUL; round trip",
      bounds="unwind 10; all UTF-8 strings of <= 4 bytes"),
]

# sequential harnesses over the connection: a compare-exchange that follows its load cannot fail, so the retry loops
# get bound 2 (unwinding assertions stay on); in particular BumpAllocator::allocate then yields ONE pointer value
# instead of a 7-way case split, which keeps every offset behind it concrete
_CONN_UW = {"bump_allocator&8allocate": 2, "SharedManagementData12remove_state": 2,
            "SharedManagementData12reserve_port": 2}
_c13 = []
for (n, what) in [
    ("c13_q_drop_sender_first", "sender and receiver attached, sender detaches first: not destroyed while the receiver is "
                                "attached, destroyed exactly once (ownership acquired once) by the receiver's detach"),
    ("c13_q_drop_receiver_first", "same, receiver detaches first"),
    ("c13_q_second_sender_refused", "a second sender is refused as already connected; attached sides and resource untouched"),
    ("c13_q_second_receiver_refused", "a second receiver is refused as already connected"),
    ("c13_q_single_sender_and_recreate", "a lone sender destroys the resource on detach; the name is usable again"),
    ("c13_q_single_receiver_and_recreate", "a lone receiver destroys the resource on detach; the name is usable again"),
    ("c13_q_mismatch_buffer_same_role", "second sender with a different buffer size: refused as already connected, the "
                                        "attached sender's role bit untouched (its detach destroys the resource once)"),
    ("c13_q_mismatch_borrow_other_role", "receiver with a different max-borrow: refused with the specific error, its "
                                         "role is rolled back, the sender's later detach destroys the resource once"),
    ("c13_q_mismatch_channels_other_role", "receiver with a different number of channels: same"),
    ("c13_q_race_detach_before_registration", "receiver attach racing the sender's detach after the storage was opened "
                                              "but before the port is registered: refused as being cleaned up, never on "
                                              "a destroyed resource; destroyed exactly once"),
    ("c13_q_race_detach_after_registration_mismatch", "sender detaches right after the mismatching receiver registered: "
                                                      "the refused attacher is the last one out and destroys the "
                                                      "resource exactly once (no leak, no double destruction)"),
    ("c13_q_race_detach_after_registration_match", "sender detaches right after the matching receiver registered: the "
                                                   "attach succeeds on a live resource, receiver's detach destroys it"),
    ("c13_q_forced_removal_receiver_then_sender_leaves", "remove_receiver on behalf of a dead receiver while the sender "
                                                         "is attached: not destroyed under the survivor; its detach destroys once"),
    ("c13_q_forced_removal_sender_after_receiver_left", "receiver leaves, then remove_sender for the dead sender is the "
                                                        "last one out: destroyed exactly once"),
]:
    # every attach builds the complete management segment (~17 M variables for two attaches, 20 GB, ~19 min): the
    # quick tier runs the two cases that involve the most of the protocol, all slices run in the thorough tier
    _q = False  # vp check 3: the two-attach slices need > 900 s on an idle machine; quick is the single-attach slice below
    _c13.append(H("cal::conn::" + n, features=CAL, unwindset=_CONN_UW, covers=0, timeout=3600, mem_gb=21, concrete=True,
                  tiers=("quick", "thorough") if _q else ("thorough",),
                  what=what, bounds="unwind 6; one concrete case, 2-3 attach operations"))
_c13.append(H("cal::conn::c13_q_second_sender_mismatch_refused", features=CAL, unwindset=_CONN_UW, covers=0, timeout=3000,
              mem_gb=18, concrete=True, tiers=("quick",),
              what="a second sender with a different buffer size is refused as already connected (not with a "
                   "parameter error: the role check comes first) and nothing is destroyed; no teardown in this harness",
              bounds="unwind 6; one concrete case, one attach + one refused attach"))
for n in ["c13_t_mismatch_buffer_other_role", "c13_t_mismatch_overflow_other_role", "c13_t_mismatch_chunks_other_role",
          "c13_t_mismatch_segments_other_role", "c13_t_mismatch_channels_same_role",
          "c13_t_race_detach_before_registration_mismatch"]:
    _c13.append(H("cal::conn::" + n, features=CAL, unwindset=_CONN_UW, covers=0, timeout=3600, mem_gb=21, tiers=("thorough",),
                  concrete=True, what="further concrete cases of the mismatch / race family", bounds="unwind 6; one concrete case"))
# the unsliced harnesses (symbolic case selection, 3-4 attach operations): 25-40 M variables, thorough tier only
_c13 += [
        H("cal::conn::c13_second_attach_and_drop_order", features=CAL, unwindset=_CONN_UW, covers=2, timeout=7200, mem_gb=34,
          tiers=("thorough",),
          what="second attach of either role refused without disturbing; both drop orders: destroyed exactly once by "
               "the last detach, ownership acquired exactly once, never while a role is attached",
          bounds="unwind 6"),
        H("cal::conn::c13_single_role_and_recreate", features=CAL, unwindset=_CONN_UW, covers=0, timeout=7200, mem_gb=34,
          tiers=("thorough",),
          what="a lone role destroys the resource on detach; the name is usable again", bounds="unwind 6"),
        H("cal::conn::c13_mismatching_attach", features=CAL, unwindset=_CONN_UW, covers=0, timeout=7200, mem_gb=34,
          tiers=("thorough",),
          what="each single mismatching parameter (symbolic) is refused with its specific error, leaves the sender "
               "attached and the resource alive; a matching attach still works", bounds="unwind 6; 6 parameters"),
        H("cal::conn::c13_attach_races_detach", features=CAL, unwindset=_CONN_UW, covers=2, timeout=7200, mem_gb=34,
          tiers=("thorough",),
          what="receiver attach racing the sender's detach at the two points where another process can act (symbolic "
               "point and matching/mismatching)", bounds="unwind 6; 2 race points x matching/mismatching"),
        H("cal::conn::c13_forced_removal", features=CAL, unwindset=_CONN_UW, covers=2, timeout=7200, mem_gb=26,
          tiers=("thorough",),
          what="remove_sender/remove_receiver on behalf of a dead peer before or after the survivor leaves (symbolic): "
               "destroyed exactly once, never under the survivor", bounds="unwind 6"),
]
PROPS["C13"] = {
    "bounds": "one connection name, buffer 1, max borrow 1, 1 chunk, 1 segment, 1 channel; every drop order; each single "
              "mismatching parameter; forced removal of either role before or after the survivor leaves",
    "outside": "concurrent attach/detach/forced-remove from 2-3 threads (schedule harness on the state byte is thorough "
               "tier only and bounded to one race); what posix_shared_memory / process_local do with the ownership "
               "flag (files, shm unlink) - the storage is KStorage, only the DynamicStorage contract is exercised",
    "assumptions": ["KStorage (in-memory DynamicStorage, engine/hk/src/cal/kstorage.rs) stands in for the real storages"],
    "harnesses": _c13,
    "claimed": False,
}

_conn_data = [
    H("cal::conn::conn_data_history_overflow", features=CAL, unwindset=_CONN_UW, covers=2, timeout=3600, mem_gb=28,
      what="sender->receiver connection with safe overflow: 4 symbolic try_send/receive/release/reclaim steps vs a model "
           "(submission FIFO, borrowed set, completion FIFO); order, at-most-once, eviction of the oldest, release never "
           "fails, borrow limit, used offsets after receiver exit", bounds="unwind 8; buffer 1, borrow 1, 4 chunks"),
    H("cal::conn::conn_data_history_no_overflow", features=CAL, unwindset=_CONN_UW, covers=2, timeout=3600, mem_gb=28,
      what="same without overflow: full buffer refused with ReceiveBufferFull and no effect",
      bounds="unwind 8; buffer 1, borrow 1, 4 chunks"),
    H("cal::conn::conn_data_history_overflow_deep", features=CAL, unwindset=_CONN_UW, covers=2, timeout=10800, mem_gb=40, tiers=("thorough",),
      what="buffer 2, borrow 1, 6 steps, overflow", bounds="unwind 9"),
    H("cal::conn::conn_data_history_no_overflow_deep", features=CAL, unwindset=_CONN_UW, covers=2, timeout=10800, mem_gb=40,
      tiers=("thorough",), what="buffer 2, borrow 2, 6 steps, no overflow", bounds="unwind 9"),
]
_conn_data += [
    H("cal::conn::c11_channel_separation", features=CAL, unwindset=_CONN_UW, covers=0, timeout=3600, mem_gb=40, tiers=("thorough",),
      what="2-channel connection: samples, borrow counters and completion queues never cross channels",
      bounds="unwind 8; 2 channels, 1 sample each"),
    H("cal::conn::conn_release_worst_case_1_1", features=CAL, unwindset=_CONN_UW, covers=0, timeout=3600, mem_gb=28,
      what="directed worst case for the completion-queue sizing (buffer + max_borrow + 1 offsets in flight between "
           "two reclaim rounds of the sender): every release succeeds, every offset comes back once",
      bounds="unwind 8; buffer 1, borrow 1"),
    H("cal::conn::conn_release_worst_case_2_1", features=CAL, unwindset=_CONN_UW, covers=0, timeout=7200, mem_gb=36, tiers=("thorough",),
      what="same, buffer 2, borrow 1", bounds="unwind 8"),
    H("cal::conn::conn_release_worst_case_1_2", features=CAL, unwindset=_CONN_UW, covers=0, timeout=7200, mem_gb=36, tiers=("thorough",),
      what="same, buffer 1, borrow 2", bounds="unwind 8"),
]
PROPS["C11"] = {
    "bounds": "channel state word for all request ids <= 2^62 and every reachable shape (closed / owned / owned+hint), "
              "one symbolic operation",
    "outside": "client.rs / server.rs / active_request.rs / pending_response.rs (port layer on a Service): request "
               "routing, response streams, limits on active requests",
    "assumptions": ["claim is about the channel mechanism in iceoryx2-cal only"],
    "harnesses": [
        H("cal::conn::c11_channel_state_machine", features=CAL, unwindset=_CONN_UW, covers=2, timeout=900, mem_gb=4,
          what="ZeroCopyPortDetails channel-state protocol (real provided methods): open only from CLOSED, close/hint "
               "only by the owning request, closed channel belongs to nobody, other channels untouched",
          bounds="all request ids <= 2^62, one symbolic operation from every reachable state"),
    ],
    "claimed": False,
}
# without preemption a compare-exchange that follows its load cannot fail: the retry loops of the bit set get their
# own bound (the unwinding assertion of each loop stays on)
PROPS["C05"] = {
    "bounds": "bit sets: capacity 10 (crossing the 8-bit element), 4-5 symbolic operations; hand-shake: ids <= 3, 3 "
              "symbolic notify/try_wait/blocking_wait steps; schedule: listener preempted at every shared-memory "
              "operation of its drains with up to 3 complete notifications in the gaps",
    "outside": "the real trigger back-ends (semaphore, unix datagram socket, socket pair: FFI) are replaced by a counting "
               "model trigger; timed waits; 3 concurrent notifiers; notifier.rs / listener.rs port layer",
    "assumptions": ["KTrig model trigger contract: notify increments a counter, waits consume it, blocking on 0 is "
                    "recorded as 'would block'"],
    "harnesses": [
        H("c05::c05_bitset_history", covers=1, timeout=1500, mem_gb=6, tiers=("quick",), unwindset=_BITSET_SEQ,
          what="FixedSizeBitSet<10>: set/reset_next/reset_all history vs bit-mask model: nothing lost, no phantom",
          bounds="unwind 12; 3 steps + final drain"),
        H("c05::c05_bitset_history_deep", covers=1, timeout=3600, mem_gb=10, tiers=("thorough",), unwindset=_BITSET_SEQ,
          what="same, 4 steps", bounds="unwind 12; 4 steps + final drain"),
        H("c05::c05_counting_bitset_history", covers=1, timeout=1500, mem_gb=6,
          what="FixedSizeCountingBitSet<3>: exact counts per id", bounds="unwind 8; 5 steps"),
        H("c05::sched::c05_s_reset_all_race", crate="hs", covers=2, timeout=3000, mem_gb=12, tiers=("quick",),
          what="listener draining with reset_all (FixedSizeBitSet<10>) while up to 2 notifications land before or at any "
               "of its shared-memory operations, then a quiescent reset_all: no lost, no phantom, never more deliveries "
               "than notifications", bounds="unwind 12; ids {1,8,9}; 2 notifications"),
        H("c05::sched::c05_s_reset_next_race", crate="hs", covers=2, timeout=3000, mem_gb=12, tiers=("quick",),
          # the quiescent reset_all needs 9 unwindings (8 bits per element); the retry loops get their own bounds:
          # set_bit only runs uninterrupted (notifier), clear_bit of the preempted listener can fail once per notification
          unwindset={"bit_set&7set_bit": 2, "bit_set&9clear_bit": 4, "bit_set&10reset_next": 5},
          what="listener draining with reset_next (FixedSizeBitSet<3>) under the same race, then a quiescent reset_all; "
               "reset_next finds something whenever a completed notification was pending",
          bounds="unwind 10; ids 0..2; 2 notifications"),
        H("c05::sched::c05_s_bitset_drain_race", crate="hs", covers=2, timeout=7200, mem_gb=30, tiers=("thorough",),
          what="listener draining (reset_all, reset_next, reset_all) while up to 3 notifications land at any of its "
               "shared-memory operations: no lost, no phantom, never more deliveries than notifications",
          bounds="unwind 12; ids {1,8,9}"),
        H("cal::c05ev::c05_ev_history", features=CAL, covers=2, timeout=5400, mem_gb=16, tiers=("thorough",),
          unwindset={"bit_set&7set_bit": 2, "bit_set&9reset_all&.1": 2},
          what="real event hand-shake (Handle::notify / Waiter::drain_events) over KStorage + counting trigger: 3 symbolic "
               "notify/try_wait/blocking_wait steps; delivered == notified-and-undelivered; no sleep while pending",
          bounds="unwind 16; ids <= 3"),
        H("cal::c05ev::c05_ev_notify_races_wait", features=CAL, covers=2, timeout=3600, mem_gb=24,
          native_space=[("usize", (0, 1, 2, 3)), ("usize", (0, 1, 2, 3)), ("u8", (1, 3))],
          unwindset={"bit_set&7set_bit": 2, "bit_set&9reset_all&.1": 2},
          what="a notification wakes the listener inside its wait call (or at the start of the drain) and a second one "
               "(id symbolic) completes while the collected ids are handed to the callback; the following wait delivers "
               "everything notified and never sleeps on a pending notification", bounds="unwind 16; ids <= 3, 2 waits"),
        H("cal::c05ev::c05_ev_id_out_of_range", features=CAL, covers=0, timeout=3600, mem_gb=20, tiers=("thorough",),
          what="id beyond event_id_max refused, delivers nothing", bounds="unwind 16"),
    ],
    "claimed": False,
}
PROPS["C01"] = {
    "bounds": "one publisher->subscriber connection (zero_copy_connection), buffer 1-2, max borrow 1-2, 4 chunks, 4-6 "
              "symbolic operations; Queue::push_with_overflow as history ring (C16 harness)",
    "outside": "publisher.rs / subscriber.rs / sender.rs / receiver.rs: several publishers or subscribers, history "
               "replay to late joiners, update_connections, reconnects, byte identity of payloads, blocking_send",
    "assumptions": ["connection-level claim only: the port layer needs a Service and is not encodable"],
    "harnesses": _conn_data + [
        H("c16::c16_fixed_size_queue_history", covers=2, timeout=1200, mem_gb=6, tiers=("quick",),
          what="history ring: FixedSizeQueue::push_with_overflow keeps the newest entries, evicts the oldest",
          bounds="unwind 9; CAP 2, 4 steps"),
    ],
    "claimed": False,
}
PROPS["C02"] = {
    "bounds": "same connection harness with the conservation oracle: each chunk is in exactly one of {sender, submission "
              "queue, borrowed, completion queue}; after the receiver leaves acquire_used_offsets yields exactly the "
              "chunks in flight, once; pool allocator: a bucket is handed out again only after deallocate (C15)",
    "outside": "SegmentState reference counting, Sample/SampleMut drop, history eviction vs late joiner (port layer)",
    "assumptions": ["connection-level claim only"],
    "harnesses": _conn_data + [
        H("c15::c15_pool_bb_history", covers=4, timeout=1500, mem_gb=6,
          what="pool allocator never hands out a live bucket again; freed buckets are reusable",
          bounds="unwind 8; 4 steps"),
    ],
    "claimed": False,
}
PROPS["C02"]["harnesses"] += [
    H("cal::conn::c02_used_chunk_list_history", features=CAL, unwindset=_CONN_UW, covers=1, timeout=1500, mem_gb=6,
      what="FixedSizeUsedChunkList<4>: insert/remove/remove_all history vs bit-mask model (what the sender gets back "
           "when a receiver vanishes)", bounds="unwind 8; 5 steps"),
]
PROPS["C14"]["harnesses"] += [
    H("cal::conn::c14_used_chunk_list_relocation", features=CAL, unwindset=_CONN_UW, covers=1, timeout=1500, mem_gb=6,
      what="FixedSizeUsedChunkList<3> byte-copied to a fresh block between two inserts", bounds="unwind 8"),
]
PROPS["C08"] = {
    "bounds": "sizing formulas via MIR->SMT for all limit values < 2^16; index sets refuse the (capacity+1)-th acquire "
              "and accept again after a release (capacity 2, 5 symbolic operations)",
    "outside": "LoanError::ExceedsMaxLoans, port/node creation limits, ActiveRequest limits (port layer); that the demand "
               "expression of the sizing formulas is the true worst case of the port layer is an argument, not a check",
    "assumptions": ["formula-level and index-set-level claim only"],
    "harnesses": [
        H("c09::c09_uis_history_cap2", covers=3, timeout=900, mem_gb=4,
          what="UniqueIndexSet refuses the (capacity+1)-th acquire with OutOfIndices and accepts again after one release",
          bounds="unwind 8; 5 steps"),
    ],
    "claimed": False,
}
# the end-to-end connection data path (_conn_data) does not fit the solver (DESIGN.md section 12): it stays
# registered under the unclaimed C01/C02 entries only, for reference and for `bin/check C01 --only ...` experiments
PROPS["C03"]["harnesses"] += [
    H("cal::conn::c02_used_chunk_list_history", features=CAL, unwindset=_CONN_UW, covers=1, timeout=1500, mem_gb=6,
      what="FixedSizeUsedChunkList<4>: insert/remove/remove_all history vs bit-mask model (the offsets a sender gets "
           "back when a receiver vanishes: each once, none invented)", bounds="unwind 8; 5 steps"),
]


_C10_UW = {"9container&12update_state": 3, "RobustUniqueIndexSet28increment_generation_counter": 2,
           "RobustUniqueIndexSet7acquire": 3, "bump_allocator&8allocate": 2}
PROPS["C10"] = {
    "bounds": "capacity 2, 4 symbolic add/remove/recover operations without snapshots; capacity 1 snapshot refresh after "
              "add / remove / re-add",
    "outside": "concurrent writers racing a refreshing reader (the snapshot path does not fit the solver beyond "
               "capacity 1, see DESIGN.md); capacities > 2; the dynamic_config layer of the iceoryx2 crate",
    "assumptions": ["core::ptr::copy_nonoverlapping replaced by a byte loop in the snapshot harness (Kani stub)"],
    "harnesses": [
        H("c10::c10_add_remove_history", covers=2, timeout=2400, mem_gb=10,
          what="FixedSizeContainer<(u16,!u16),2>: add/remove/recover history vs model: slots exclusive, data intact, "
               "(capacity+1)-th add refused, double remove refused, freed slots reusable, no leak",
          bounds="unwind 8; 3 steps (add/remove), 2 owners"),
        H("c10::c10_recover_dead_owner", covers=0, timeout=2400, mem_gb=10,
          what="recover(dead owner) visits and frees exactly the dead owner's entry; the live owner's entry is untouched",
          bounds="unwind 8; capacity 2, both insertion orders"),
        H("c10::c10_state_refresh_cap1", covers=0, timeout=3600, mem_gb=30, tiers=("thorough",), unwindset=_C10_UW,
          what="get_state/update_state on capacity 1: never ghost, exact data, every completed add/remove noticed by "
               "the next refresh, 'nothing changed' afterwards, slot reuse", bounds="unwind 6; capacity 1"),
    ],
    "claimed": False,
}

PROPS["C15"]["extra"] = [_engine_m("c15_")]
PROPS["C08"]["extra"] = [_engine_m("c08_")]

# ---- claim texts (MANIFEST.json) --------------------------------------------------------------
_BMC = ("bounded model checking of the real iceoryx2 code: CBMC decides every assertion for all values of the symbolic "
        "inputs, operation sequences and (where stated) schedules inside the bounds listed in the evidence file; "
        "nothing is sampled; outside the bounds nothing is claimed")

PROPS["C15"].update({
    "level_text": _BMC + ". Decides in-bounds / aligned / disjoint / exact failure conditions / reuse for the bb pool, "
                  "bump and one-chunk allocators and the cal shm allocators on symbolic segments and layouts, plus the "
                  "chunk-layout arithmetic via MIR->SMT. Growth of a dynamic segment under a live subscriber (port layer) "
                  "is outside the claim.",
    "level_note": "trusted: Kani/CBMC, rustc MIR, z3/cvc5; assumes SC memory, no allocation failure, logging stubs; "
                  "segment <= 56 bytes, 3-4 operations",
})
PROPS["C16"].update({
    "level_text": _BMC + ". Symbolic operation histories on StaticVec / RelocatableVec / PolymorphicVec, Queue / "
                  "FixedSizeQueue (incl. overflowing push), SlotMap, FlatMap and the string types against array-backed "
                  "reference models, with a drop tracker proving exactly-once drop and no access after drop.",
    "level_note": "capacity <= 3, histories of 3-5 operations, u8 values; reference models are part of the trusted base "
                  "(<= 30 lines each)",
})
PROPS["C19"].update({
    "level_text": _BMC + ". For every semantic string type of bb/system-types plus ServiceName / NodeName: "
                  "accept-iff-documented-rule and round-trip for all byte strings up to the bound; every editing "
                  "operation keeps an accepted value acceptable and equal to the model (on RestrictedFileName<2>, the "
                  "same generic SemanticString code with FileName's rules; harnesses for the 255-byte types exist as "
                  "tier 'extended' and are not claimed); find / "
                  "rfind; (cal) extract_name_from_file isolation for symbolic prefixes and names: a domain with an unrelated "
                  "prefix never extracts a name from another domain's file, and the prefix-of-a-prefix class is the open "
                  "finding F-C19-1 (thorough tier adds own-domain round trip, suffix isolation, prefixes of different "
                  "length and the shape of path_for).",
})

_SCHED = ("Schedules: the atomics crate (iceoryx2-pal-concurrency-sync) is swapped for a generated drop-in in which "
          "every atomic operation (and, where stated, every UnsafeCell access) of one thread is a preemption point at "
          "which the solver decides whether complete operations of the other thread run (nested preemption, "
          "sequentially consistent); the schedule is part of the same SAT query")

PROPS["C03"].update({
    "level_text": _BMC + ". Index queue, safely-overflowing index queue and generic SPSC queue: symbolic sequential "
                  "histories against a FIFO model (conservation, order, capacity, eviction of the oldest), producer/"
                  "consumer hand-over, and both role assignments under symbolic schedules. " + _SCHED + ". The "
                  "connection clause is decided in parts: completion-queue capacity >= buffer + max_borrow + 1 "
                  "and submission-queue capacity == buffer from the MIR of the real sizing functions (z3/cvc5), and "
                  "the used-chunk list against a set model; the end-to-end connection data path did not fit the solver.",
    "level_note": "capacity <= 2, 2 operations of the preempted thread with 1-2 complete operations of the other one "
                  "(thorough adds capacity-3 sequential histories and the capacity-1 overflow queue under schedules with 3 outer / 2 inner operations; deeper schedules exist as tier 'extended', not claimed), SC interleavings only: C11 weak-memory stale "
                  "reads are outside the claim; zero_copy_connection try_send/receive/release end-to-end is outside "
                  "the claim (44 M variables at the smallest configuration)",
})
PROPS["C05"].update({
    "level_text": _BMC + ". Event-id stores (BitSet, CountingBitSet): symbolic set/reset_next/reset_all histories "
                  "against a mask / count model, and a draining listener preempted at each shared-memory operation while "
                  "notifications land (no lost, no phantom, never more deliveries than notifications). " + _SCHED +
                  ". The real event hand-shake (event::common Handle::notify / Waiter::drain_events) runs over an "
                  "in-memory DynamicStorage and a counting model trigger: a notification that wakes the listener inside "
                  "its wait call and a second one that completes while the collected ids are handed out must both be "
                  "delivered and the following wait must never sleep on a pending notification (thorough tier adds "
                  "symbolic notify/try_wait/blocking_wait histories and a longer bit-set history).",
    "level_note": "OS trigger back-ends (semaphore, sockets) are replaced by a model trigger; ids <= 3 (hand-shake) / "
                  "<= 9 (bit set); interleavings at the hand-shake level are the two seams of the model trigger and the "
                  "user callback, not every atomic operation; timed waits, port layer (notifier.rs/listener.rs) outside "
                  "the claim",
})
PROPS["C08"].update({
    "level_text": "MIR -> SMT-LIB2 translation of the real sizing functions (publish_subscribe / request_response static "
                  "config, zero_copy_connection queue sizes), regenerated from /repo on every run and decided by z3 with "
                  "cvc5 as cross-check: no overflow and chunks >= worst-case demand for all limit values < 2^16; plus "
                  + _BMC + " for the index-set limit (the (capacity+1)-th acquire is refused with the documented error, "
                  "has no effect and succeeds again after one release).",
    "level_note": "formula level and index-set level only: that the demand expression is the true worst case of the port "
                  "layer is an argument (DESIGN.md), ExceedsMaxLoans / port / node / request limits of the iceoryx2 crate "
                  "and the connection-level borrow limit are outside the claim",
    "technique": "symbolic execution of rustc MIR into SMT-LIB2 bit-vector queries decided by z3 5.1 / cvc5 1.0, plus "
                 "bounded model checking (Kani 0.68 / CBMC 6.11)",
})
PROPS["C09"].update({
    "level_text": _BMC + ". UniqueIndexSet (lock-free free list with ABA tag) and RobustUniqueIndexSet: symbolic "
                  "acquire / release / lock-if-last / recover histories against a set / owner model (exclusive, in range, "
                  "leak free, exact failure conditions), and two threads racing on the real free list under symbolic "
                  "schedules incl. the ABA shape and the lock-if-last hand-shake. " + _SCHED + ". Thorough tier adds the "
                  "recovery of a dead owner preempted at every atomic operation while a second recoverer / a live owner "
                  "run in the gaps (25 min per harness).",
    "level_note": "capacity <= 2 (thorough: capacity 1 race and capacity 3-4 sequential histories as well), 1 preempted operation with up to 2 complete "
                  "operations of the other thread; SC only; wrap of the 16-bit ABA tag and 3 threads outside the claim",
})
PROPS["C11"].update({
    "level_text": _BMC + ". Channel-state protocol of zero_copy_connection (the mechanism that routes responses to "
                  "requests): one symbolic operation of the real ZeroCopyPortDetails provided methods from every "
                  "reachable state word, all request ids: a channel is opened only from CLOSED, closed or hinted only by "
                  "the owning request id, a closed channel belongs to nobody, other channels are untouched.",
    "level_note": "channel mechanism in iceoryx2-cal only; client.rs / server.rs / pending_response.rs / active_request.rs "
                  "(request routing on a Service, stream limits) cannot be encoded and are outside the claim; two "
                  "port-layer observations are documented in DESIGN.md, not decided",
})
PROPS["C12"].update({
    "level_text": _BMC + ". UnrestrictedAtomic (seqlock-style blackboard cell): sequential store/load round trips "
                  "(copy and loan-style two-step writes), raw run-time-layout API (cells aligned, disjoint, in bounds for "
                  "every misalignment), reader preempted at every shared operation and in the middle of its copy while "
                  "the writer completes stores, writer preempted while readers load, single-writer exclusion. "
                  + _SCHED + "; the payload copy is split into two halves with a preemption point in between.",
    "level_note": "payload [u32;2], <= 2 loads with <= 2 writer actions and the mirror image (thorough: 3 writer actions / 2 loads inside the stores), SC interleavings only; weak-memory reorderings and payloads "
                  "copied in more than two pieces are outside the claim",
})
PROPS["C13"].update({
    "level_text": _BMC + ". Real zero_copy_connection::common Builder/Sender/Receiver over an in-memory DynamicStorage "
                  "(KStorage).  Quick tier, one concrete case: with a sender attached, a second sender with a mismatching "
                  "buffer size is refused as already connected (the role check precedes the parameter checks) and "
                  "nothing is destroyed.  Thorough tier adds the two-attach cases that were observed to finish (17-19 "
                  "min each): the same case followed by the attached sender's detach, which must destroy the resource "
                  "exactly once (its role bit untouched); the sender detaching right after a mismatching receiver "
                  "registered, which makes the refused attacher the last one out and must destroy the resource exactly "
                  "once; an attach racing the teardown before the port is registered (refused as being cleaned up); "
                  "forced removal of a dead peer with symbolic role / order; both drop orders of an attached "
                  "sender/receiver pair (not destroyed while the other side is attached, destroyed exactly once by the "
                  "last detach; 11 min / 23 GB each); forced removal of a dead sender as the last one out after the receiver left (destroyed exactly once; 11 min) and of a dead receiver under an attached sender (not destroyed under the survivor, whose detach destroys once; 17 min).  Further slices (second "
                  "attach, single role + re-create, the other mismatching parameters) exist as tier 'extended' and are "
                  "not claimed.",
    "level_note": "one connection, buffer 1 / borrow 1 / 1 chunk / 1 channel; every attach costs ~10 M SAT variables: the "
                  "quick tier is one case of ~10 min / 23 GB; the storage is a model of the DynamicStorage contract "
                  "(posix shared memory / files are outside); races are the two hook points of the storage model where "
                  "another process can act, not every atomic operation",
})
PROPS["C14"].update({
    "level_text": _BMC + ". For each relocatable structure (index queue, overflowing index queue, unique index set, robust "
                  "index set, counting bit set, StaticVec, RelocatableVec, FixedSizeQueue, StaticString, used-chunk list, "
                  "shm pool allocator with its management memory): a symbolic operation history in which the structure "
                  "is byte-copied to a different block at a symbolic point (old block scribbled and freed, or kept and "
                  "checked to stay untouched) and compared in lock-step with a twin that stayed; RelocatablePointer "
                  "follows the placement delta exactly; the shm pool allocator yields the same offsets over two "
                  "differently placed segments.",
    "level_note": "2-3 operations, capacities 2-3; FixedSizeContainer relocation is thorough tier (28 GB); bit set, "
                  "SlotMap and FlatMap relocation harnesses exist but did not finish within their caps and are not "
                  "part of any registered command",
})
PROPS["C19"].update({
    "level_note": "strings <= 3 bytes (ServiceName <= 8, NodeName <= 4); the specification predicates in c19.rs are trusted; ServiceName / NodeName "
                  "construction is included (feature iox2), config files and real directory listing are outside the "
                  "claim; root-path isolation (extract_name_from_path) harnesses need 30+ min per case, are tier 'extended' and "
                  "not claimed; open finding "
                  "F-C19-1 (prefix of a prefix) is reported as KNOWN-FINDING",
})

# properties whose checks are still being stabilised are not claimed in MANIFEST.json yet
NOT_READY = ["C01", "C02", "C10"]
for _p in PROPS:
    PROPS[_p]["claimed"] = (_p not in NOT_READY) and ("level_text" in PROPS[_p])
PROPS["C03"]["extra"] = [_engine_m("c08_completion")]

# ---- thorough tier: only what has been seen to complete on the unchanged tree --------------------------------
# A registered command that ends inconclusive on the unchanged tree is a broken check, and nothing may be claimed
# from a harness that never finished.  Harnesses beyond the quick tier therefore stay in the thorough tier only
# if they are listed here (observed: passed on the unchanged tree within their caps, see DESIGN.md section 12.8);
# all others are kept as tier "extended" (bin/check <ID> --tier extended), which no registered command runs.
THOROUGH_OBSERVED = set("""
c09_s_robust_recover_vs_recover c09_s_robust_recover_vs_owner c09_s_uis_race_cap1
c13_q_race_detach_before_registration c13_forced_removal
c05_ev_history c05_bitset_history_deep
c14_container
c19_cross_domain_direct c19_cross_domain_direct_mixed_len c19_path_for_shape
c12_s_reader_outer_deep c12_s_writer_outer_deep
c05_ev_id_out_of_range
c13_q_mismatch_buffer_same_role c13_q_race_detach_after_registration_mismatch
c09_uis_history_cap3 c09_uis_history_cap4 c09_robust_history_cap3
c03_seq_index_queue_cap3 c03_seq_overflow_queue_cap3 c03_seq_spsc_queue_cap3
c03_s_overflow_cap1_producer_outer c03_s_overflow_cap1_consumer_outer
c13_q_drop_sender_first c13_q_drop_receiver_first
c13_q_forced_removal_sender_after_receiver_left c13_q_forced_removal_receiver_then_sender_leaves
""".split())
for _p in PROPS:
    for _h in PROPS[_p]["harnesses"]:
        if "quick" not in _h.tiers and "thorough" in _h.tiers and _h.short not in THOROUGH_OBSERVED:
            _h.tiers = ("extended",)
