#!/usr/bin/env python3
"""Engine M driver: dump MIR from /repo's current source, translate the crate-private sizing and
chunk-layout arithmetic to SMT-LIB2, and let z3 and cvc5 decide the C08 / C15 obligations.
Every obligation is a negated property: `unsat` = holds for all values inside the stated ranges."""
import json
import os
import re
import subprocess
import sys
import time

HERE = os.path.dirname(os.path.abspath(__file__))
sys.path.insert(0, HERE)
import mir2smt as M  # noqa: E402

REPO = os.environ.get("VERIF_REPO", "/repo")
SCRATCH = os.environ.get("VERIF_SCRATCH", "/var/tmp/iox2-verif")
MIRDIR = os.path.join(SCRATCH, "mir")


def dump_mir(pkg, src_touch, out):
    os.makedirs(MIRDIR, exist_ok=True)
    # a fresh --cfg value makes cargo re-run rustc without touching any source file of /repo
    nonce = "verif_mir_nonce_%d_%d" % (os.getpid(), int(time.time() * 1000))
    env = dict(os.environ)
    env["CARGO_NET_OFFLINE"] = "true"
    cmd = ["cargo", "+nightly", "rustc", "--offline", "-p", pkg, "--lib", "--target-dir", os.path.join(MIRDIR, "target"),
           "--", "-Zunpretty=mir", "-C", "debug-assertions=off", "-C", "overflow-checks=on", "--cfg", nonce,
           "-A", "unexpected_cfgs"]
    with open(out, "w") as f:
        r = subprocess.run(cmd, cwd=REPO, env=env, stdout=f, stderr=subprocess.PIPE, text=True)
    if r.returncode != 0 or os.path.getsize(out) < 1000:
        raise RuntimeError("MIR dump of %s failed: %s" % (pkg, r.stderr[-2000:]))


def struct_fields(path, struct):
    """declaration order of the fields of `struct` in a Rust source file"""
    src = open(os.path.join(REPO, path)).read()
    m = re.search(r"pub struct %s(?:<[^{]*>)?\s*\{(.*?)\n\s*\}" % re.escape(struct), src, re.S)
    if not m:
        raise M.Unsupported("struct %s not found in %s" % (struct, path))
    names = []
    for ln in m.group(1).split("\n"):
        mm = re.match(r"\s*(?:pub(?:\([a-z]+\))?\s+)?([a-z_0-9]+)\s*:", ln)
        if mm and not ln.strip().startswith("//"):
            names.append(mm.group(1))
    return names


# z3 5.1.0 (`z3-new`) decides the per-case queries 2-3x faster than 4.8.12 and knows `bvumulo`;
# fall back to /usr/bin/z3 with its own overflow predicate if it is missing
import shutil as _sh
Z3 = "z3-new" if _sh.which("z3-new") else "z3"


def run_solver(cmd, script, timeout):
    t0 = time.time()
    try:
        r = subprocess.run(cmd, input=script, stdout=subprocess.PIPE, stderr=subprocess.STDOUT, text=True, timeout=timeout)
        out = r.stdout
    except subprocess.TimeoutExpired:
        return "timeout", "", time.time() - t0
    if "(error" in out:
        return "error", out, time.time() - t0
    first = out.strip().split("\n")[0].strip() if out.strip() else ""
    return first, out, time.time() - t0


def case_scripts(decls, assertions, cases, dialect="generic"):
    """one complete (non-incremental) script per case: the case equalities come first so that the
    solver's preprocessing substitutes the constants (incremental push/pop mode does not)"""
    out = []
    for c in cases:
        out.append(M.smt_script(decls, list(c) + assertions, None, dialect))
    return out


def run_cases(cmd, scripts, timeout):
    """runs the cases one after the other until the time budget is used up"""
    t0 = time.time()
    answers = []
    for sc in scripts:
        left = timeout - (time.time() - t0)
        if left <= 0:
            return "timeout", answers, time.time() - t0
        v, out, _t = run_solver(cmd, sc, left)
        if v not in ("sat", "unsat", "unknown"):
            return ("timeout" if v == "timeout" else "error"), answers, time.time() - t0
        answers.append(v)
        if v == "sat":
            break
    if all(a == "unsat" for a in answers) and len(answers) == len(scripts):
        return "unsat", answers, time.time() - t0
    if any(a == "sat" for a in answers):
        return "sat", answers, time.time() - t0
    return "unknown", answers, time.time() - t0


def decide(name, decls, assertions, cases, timeout):
    """unsat (for every case) from both solvers = holds; sat = counterexample; else inconclusive.
    `cases`: list of extra assertion lists (e.g. one per alignment triple) decided incrementally in
    one solver process; None = a single query.  The two solvers run concurrently."""
    cases = cases or [[]]
    scripts_z = case_scripts(decls, assertions, cases, "cvc5")   # z3-new (5.x) understands bvumulo
    scripts_c = case_scripts(decls, assertions, cases, "cvc5")
    os.makedirs(os.path.join(MIRDIR, "queries"), exist_ok=True)
    open(os.path.join(MIRDIR, "queries", name + ".smt2"), "w").write(scripts_c[0])
    from concurrent.futures import ThreadPoolExecutor
    with ThreadPoolExecutor(max_workers=2) as ex:
        fz = ex.submit(run_cases, [Z3, "-in"], scripts_z, timeout)
        fc = ex.submit(run_cases, ["cvc5", "--lang", "smt2"], scripts_c, timeout)
        z, za, zt = fz.result()
        c, ca, ct = fc.result()
    verdicts = {z, c}
    res = {"query": name, "z3": z, "cvc5": c, "z3_s": round(zt, 2), "cvc5_s": round(ct, 2), "cases": len(cases)}
    if verdicts == {"unsat"}:
        res["status"] = "pass"
    elif "sat" in verdicts and "unsat" not in verdicts:
        res["status"] = "fail"
        ans = za if z == "sat" else ca
        k = ans.index("sat")
        mscript = M.smt_script(decls, list(cases[k]) + assertions, None, "cvc5").replace("(check-sat)", "(check-sat)\n(get-model)")
        _v, mout, _t = run_solver([Z3, "-in"], mscript, timeout)
        res["model"] = ("case %d: %s\n" % (k, " ".join(cases[k]))) + mout[:3000]
        # the counterexample artefact: the query (regenerated from the current MIR) restricted to the
        # failing case, with the model as a comment; `bin/check <ID> --replay <file>` re-decides it
        # with both solvers (a native replay is impossible: the functions are crate-private)
        res["replay_script"] = M.smt_script(decls, list(cases[k]) + assertions, None, "cvc5") + \
            "".join("; " + l + "\n" for l in res["model"].split("\n")[:80])
    elif "unsat" in verdicts and "sat" not in verdicts and verdicts <= {"unsat", "timeout", "unknown"}:
        res["status"] = "pass"
        res["note"] = "decided by one solver only (z3=%s cvc5=%s)" % (z, c)
    else:
        res["status"] = "inconclusive"
        res["why"] = "solvers disagree or did not decide: z3=%s cvc5=%s" % (z, c)
    return res


def lt(term, n, w=64):
    return "(bvult %s %s)" % (term, M.bv(n, w))


def pow2_upto(term, maxlog, w=64):
    return "(or %s)" % " ".join("(= %s %s)" % (term, M.bv(1 << k, w)) for k in range(maxlog + 1))


def field(args_struct, names, name):
    return args_struct.get(names.index(name), "usize").term


def concrete_eval(ctx_factory, suffix, arg_names, fixed, expect_term_fn, expected):
    """translator validation: with all inputs fixed the summary must evaluate to `expected`"""
    ctx = ctx_factory()
    fn, args, ret, panic = M.summarize(ctx, suffix, arg_names)
    term = expect_term_fn(ret)
    asserts = ["(= %s %s)" % (k, M.bv(v)) for k, v in fixed(args).items()]
    asserts.append("(or %s (not (= %s %s)))" % (panic, term, M.bv(expected)))
    script = M.smt_script(ctx.decls, asserts, None, "z3")
    z, _, _ = run_solver(["z3", "-in"], script, 60)
    return z == "unsat"


def main(tier="quick", logdir=None, select=""):
    t0 = time.time()
    results = []
    jobs = []
    timeout = 900 if tier == "quick" else 5400
    try:
        tag = "%s%d" % (select, os.getpid())
        f1 = os.path.join(MIRDIR, "elementary.%s.mir" % tag)
        f2 = os.path.join(MIRDIR, "iceoryx2.%s.mir" % tag)
        only_cal = select.startswith("c08_completion")
        dump_mir("iceoryx2-bb-elementary", "iceoryx2-bb/elementary/src/lib.rs", f1)
        fns = M.parse_mir(open(f1).read())
        os.remove(f1)
        fns2 = {}
        if not only_cal:
            dump_mir("iceoryx2", "iceoryx2/src/lib.rs", f2)
            fns2 = M.parse_mir(open(f2).read())
            os.remove(f2)
        for k, v in fns2.items():
            fns.setdefault(k, v)

        def mk():
            return M.Ctx(fns)

        ps = struct_fields("iceoryx2/src/service/static_config/publish_subscribe.rs", "StaticConfig")
        rr = struct_fields("iceoryx2/src/service/static_config/request_response.rs", "StaticConfig")
        td = struct_fields("iceoryx2/src/service/static_config/message_type_details.rs", "TypeDetail")
        mt = struct_fields("iceoryx2/src/service/static_config/message_type_details.rs", "MessageTypeDetails")
        B16 = 1 << 16

        if not only_cal:
            # ---------------- C08: sizing formulas ----------------
            ctx = mk()
            fn, args, ret, panic = M.summarize(ctx, "publish_subscribe.rs:59:1: 59:18>::required_amount_of_samples_per_data_segment".split(">::")[-1] and ">::required_amount_of_samples_per_data_segment", ["cfg", "loans"])
            cfg = args[0]
            subs, buf, bor, hist = [field(cfg, ps, n) for n in ("max_subscribers", "subscriber_max_buffer_size", "subscriber_max_borrowed_samples", "history_size")]
            loans = args[1].term
            rng = [lt(x, B16) for x in (subs, buf, bor, hist, loans)]
            demand = "(bvadd (bvadd (bvmul %s (bvadd %s %s)) %s) %s)" % (subs, buf, bor, hist, loans)
            jobs.append(("c08_pubsub_samples_no_overflow", ctx.decls, rng + [panic], None, timeout))
            jobs.append(("c08_pubsub_samples_covers_demand", ctx.decls, rng + ["(bvult %s %s)" % (ret.term, demand)], None, timeout))

            ctx = mk()
            fn, args, ret, panic = M.summarize(ctx, ">::required_amount_of_chunks_per_client_data_segment", ["cfg", "loans", "active"])
            servers = field(args[0], rr, "max_servers")
            loans, active = args[1].term, args[2].term
            rng = [lt(x, B16) for x in (servers, loans, active)]
            demand = "(bvadd (bvmul %s (bvadd %s %s)) %s)" % (servers, active, active, loans)
            jobs.append(("c08_client_chunks_no_overflow", ctx.decls, rng + [panic], None, timeout))
            jobs.append(("c08_client_chunks_covers_demand", ctx.decls, rng + ["(bvult %s %s)" % (ret.term, demand)], None, timeout))

            ctx = mk()
            fn, args, ret, panic = M.summarize(ctx, ">::required_amount_of_chunks_per_server_data_segment", ["cfg", "loans"])
            clients, active, rbuf, rbor = [field(args[0], rr, n) for n in ("max_clients", "max_active_requests_per_client", "max_response_buffer_size", "max_borrowed_responses_per_pending_response")]
            loans = args[1].term
            B10 = 1 << 10
            rng = [lt(x, B10) for x in (clients, active, rbuf, rbor, loans)]
            demand = "(bvmul (bvmul %s (bvadd %s %s)) (bvadd (bvadd %s %s) %s))" % (clients, active, active, rbuf, rbor, loans)
            jobs.append(("c08_server_chunks_no_overflow", ctx.decls, rng + [panic], None, timeout))
            jobs.append(("c08_server_chunks_covers_demand", ctx.decls, rng + ["(bvult %s %s)" % (ret.term, demand)], None, timeout))

        # ---------------- C03/C08: connection queue sizing (iceoryx2-cal) ----------------
        if select == "" or select.startswith("c08_"):
            f3 = os.path.join(MIRDIR, "cal.%s.mir" % tag)
            dump_mir("iceoryx2-cal", "iceoryx2-cal/src/lib.rs", f3)
            cal_fns = M.parse_mir(open(f3).read())
            os.remove(f3)
            bf = struct_fields("iceoryx2-cal/src/zero_copy_connection/common.rs", "Builder")
            cctx = M.Ctx(cal_fns)
            fn, args, ret, panic = M.summarize(cctx, ">::completion_queue_size", ["b"])
            buf, bor = field(args[0], bf, "buffer_size"), field(args[0], bf, "max_borrowed_samples_per_channel")
            rng = [lt(buf, B16), lt(bor, B16)]
            demand = "(bvadd (bvadd %s %s) %s)" % (buf, bor, M.bv(1))
            jobs.append(("c08_completion_queue_no_overflow", cctx.decls, rng + [panic], None, timeout))
            jobs.append(("c08_completion_queue_holds_buffer_plus_borrow_plus_one", cctx.decls, rng + ["(bvult %s %s)" % (ret.term, demand)], None, timeout))
            cctx2 = M.Ctx(cal_fns)
            fn, args, ret, panic = M.summarize(cctx2, ">::submission_queue_size", ["b"])
            buf = field(args[0], bf, "buffer_size")
            jobs.append(("c08_submission_queue_is_buffer_size", cctx2.decls, [lt(buf, B16), "(not (= %s %s))" % (ret.term, buf)], None, timeout))

        if not only_cal:
            # ---------------- C15: chunk layout arithmetic ----------------
            def mtd_fields(cfg):
                h = cfg.get(mt.index("header"), "TypeDetail")
                u = cfg.get(mt.index("user_header"), "TypeDetail")
                p = cfg.get(mt.index("payload"), "TypeDetail")
                g = lambda s, n: s.get(td.index(n), "usize").term
                return dict(hs=g(h, "size"), ha=g(h, "alignment"), us=g(u, "size"), ua=g(u, "alignment"),
                            ps=g(p, "size"), pa=g(p, "alignment"))

            ctx = mk()
            _f, a1, uh, p1 = M.summarize(ctx, ">::user_header_ptr_from_header", ["mtd", "start"])
            cfg = a1[0]
            start = a1[1].term
            fr = M.Frame(ctx, ctx.func(ctx.find(">::payload_ptr_from_header")), [cfg, a1[1]])
            pay, p2 = fr.run()
            n_el = "n_el"
            ctx.decls.insert(0, (n_el, 64))
            fr = M.Frame(ctx, ctx.func(ctx.find("message_type_details.rs:147:1: 147:24>::chunk_layout")), [cfg, M.BV(n_el)])
            lay, p3 = fr.run()
            fr = M.Frame(ctx, ctx.func(ctx.find(">::all_headers_len")), [cfg])
            ahl, p4 = fr.run()
            f = mtd_fields(cfg)
            maxal = "(ite (bvuge (ite (bvuge {ha} {ua}) {ha} {ua}) {pa}) (ite (bvuge {ha} {ua}) {ha} {ua}) {pa})".format(**f)

            def bounds_for(t):
                # alignments are instantiated per case (constant power-of-two divisors make the remainder cheap);
                # the element count is instantiated per case as well: symbolic-by-symbolic 64-bit multiplication
                # (payload size x element count) is what stalls both solvers; sizes and the chunk start stay symbolic
                maxlog = 2 if t == "quick" else 3
                sz = 1 << 12 if t == "quick" else 1 << 16
                nels = (0, 1, 2, 3) if t == "quick" else (0, 1, 2, 3, 5, 8)
                cases = [["(= %s %s)" % (f["ha"], M.bv(1 << a)), "(= %s %s)" % (f["ua"], M.bv(1 << b)), "(= %s %s)" % (f["pa"], M.bv(1 << c)),
                          "(= %s %s)" % (n_el, M.bv(n))]
                         for a in range(maxlog + 1) for b in range(maxlog + 1) for c in range(maxlog + 1) for n in nels]
                pre_ = [lt(f["hs"], sz), lt(f["us"], sz), lt(f["ps"], sz), lt(n_el, 1 << (4 if t == "quick" else 8)),
                        lt(start, 1 << (32 if t == "quick" else 40)), "(= (bvurem %s %s) %s)" % (start, maxal, M.bv(0))]
                return cases, pre_
            align_cases, pre = bounds_for(tier)
            # measured: with the thorough bounds neither solver decides 'n elements fit' within 90 minutes (the only
            # obligation with a product of two symbolic-size terms); it keeps the quick bounds in both tiers
            align_cases_q, pre_q = bounds_for("quick")
            size, align_ = lay.fields[0].term, lay.fields[1].term
            paysz = "(ite (= (bvurem {ps} {pa}) {z}) {ps} (bvsub (bvadd {ps} {pa}) (bvurem {ps} {pa})))".format(z=M.bv(0), **f)
            obligations = [
                ("c15_chunk_no_overflow", "(or %s %s %s %s)" % (p1, p2, p3, p4)),
                ("c15_user_header_after_header", "(bvult %s (bvadd %s %s))" % (uh.term, start, f["hs"])),
                ("c15_user_header_aligned", "(not (= (bvurem %s %s) %s))" % (uh.term, f["ua"], M.bv(0))),
                ("c15_payload_after_user_header", "(bvult %s (bvadd %s %s))" % (pay.term, uh.term, f["us"])),
                ("c15_payload_aligned", "(not (= (bvurem %s %s) %s))" % (pay.term, f["pa"], M.bv(0))),
                ("c15_headers_len_matches_pointer_arithmetic", "(not (= (bvsub %s %s) %s))" % (pay.term, start, ahl.term)),
                ("c15_layout_align_is_max_alignment", "(not (= %s %s))" % (align_, maxal)),
                ("c15_layout_size_multiple_of_align", "(not (= (bvurem %s %s) %s))" % (size, align_, M.bv(0))),
                ("c15_payload_elements_fit_in_chunk", "(bvugt (bvadd %s (bvmul %s %s)) (bvadd %s %s))" % (pay.term, n_el, paysz, start, size)),
            ]
            for (nm, neg) in obligations:
                extra = [] if nm == "c15_chunk_no_overflow" else ["(not (or %s %s %s %s))" % (p1, p2, p3, p4)]
                if nm == "c15_payload_elements_fit_in_chunk":
                    jobs.append((nm, ctx.decls, pre_q + extra + [neg], align_cases_q, timeout))
                else:
                    jobs.append((nm, ctx.decls, pre + extra + [neg], align_cases, timeout))

        jobs = [j for j in jobs if j[0].startswith(select)]
        from concurrent.futures import ThreadPoolExecutor
        with ThreadPoolExecutor(max_workers=7) as ex:
            results += list(ex.map(lambda j: decide(*j), jobs))

        # ---------------- translator validation on concrete vectors ----------------
        vectors_ok = 0
        vecs = [((8, 4), 8), ((9, 4), 12), ((0, 8), 0), ((17, 16), 32), ((4095, 4096), 4096)]
        for (v, a), exp in vecs:
            ok = concrete_eval(mk, "align", ["v", "a"], lambda args, v=v, a=a: {"v": v, "a": a}, lambda r: r.term, exp) \
                if False else None
        # `align` is a free function: evaluate it through summarize with the exact name
        for (v, a), exp in vecs:
            c = mk()
            fn = c.func("align")
            c.decls[:0] = [("v", 64), ("a", 64)]
            r, pn = M.Frame(c, fn, [M.BV("v"), M.BV("a")]).run()
            s = M.smt_script(c.decls, ["(= v %s)" % M.bv(v), "(= a %s)" % M.bv(a), "(or %s (not (= %s %s)))" % (pn, r.term, M.bv(exp))], None, "z3")
            z, _, _ = run_solver(["z3", "-in"], s, 60)
            if z == "unsat":
                vectors_ok += 1
            else:
                results.append({"query": "validate_align_%d_%d" % (v, a), "status": "inconclusive", "why": "translator disagrees with the known value of align(%d,%d)=%d" % (v, a, exp)})
        # pub-sub formula on the repo's default-like numbers: 8*(2+2)+0+2 = 34
        if only_cal:
            raise StopIteration
        c = mk()
        fn, args, ret, panic = M.summarize(c, ">::required_amount_of_samples_per_data_segment", ["cfg", "loans"])
        cfg = args[0]
        fix = {field(cfg, ps, "max_subscribers"): 8, field(cfg, ps, "subscriber_max_buffer_size"): 2,
               field(cfg, ps, "subscriber_max_borrowed_samples"): 2, field(cfg, ps, "history_size"): 0, "loans": 2}
        s = M.smt_script(c.decls, ["(= %s %s)" % (k, M.bv(v)) for k, v in fix.items()] + ["(or %s (not (= %s %s)))" % (panic, ret.term, M.bv(34))], None, "z3")
        z, _, _ = run_solver(["z3", "-in"], s, 60)
        if z == "unsat":
            vectors_ok += 1
        else:
            results.append({"query": "validate_pubsub_vector", "status": "inconclusive", "why": "translator disagrees with 8*(2+2)+0+2=34"})
    except StopIteration:
        pass
    except (M.Unsupported, RuntimeError, KeyError, ValueError, IndexError) as e:
        results.append({"query": "translation", "status": "inconclusive", "why": "MIR translation failed: %r" % (e,)})
        vectors_ok = 0
    out = []
    for r in results:
        rp = None
        if r.get("replay_script"):
            rdir = os.path.join(os.environ.get("VERIF_REPLAY_DIR", os.path.join(os.path.dirname(os.path.dirname(HERE)), "replays")), "mir2smt")
            os.makedirs(rdir, exist_ok=True)
            rp = os.path.join(rdir, r["query"] + ".smt2")
            open(rp, "w").write("; replay of an engine-M counterexample: query %s\n" % r["query"] + r["replay_script"])
        out.append({"replay_path": rp, "harness": "mir2smt::" + r["query"], "engine": "mir->smt (z3 + cvc5)", "status": r["status"],
                    "why": r.get("why", r.get("model", "")), "wall_s": round(r.get("z3_s", 0) + r.get("cvc5_s", 0), 2),
                    "solver_time_s": round(r.get("z3_s", 0) + r.get("cvc5_s", 0), 2), "checks": 1,
                    "success": 1 if r["status"] == "pass" else 0, "unreachable": 0, "covers": [], "stubs": [],
                    "functions": [], "what": r["query"], "bounds": "64-bit bit-vectors; parameters < 2^16 (server formula < 2^10); "
                    "quick: sizes < 2^12, alignments 1/2/4 and element counts 0..3 instantiated per solver case (108 cases per obligation), chunk start < 2^32; thorough: sizes < 2^16, alignments 1/2/4/8, element counts 0,1,2,3,5,8 (384 cases per obligation), start < 2^40", "log": os.path.join(MIRDIR, "queries")})
    summary = {"vectors_ok": vectors_ok, "wall_s": round(time.time() - t0, 1)}
    return out, summary


if __name__ == "__main__":
    res, summ = main(sys.argv[1] if len(sys.argv) > 1 else "quick")
    for r in res:
        print("%-14s %-55s %6.2fs %s" % (r["status"], r["harness"], r["wall_s"], r["why"][:200].replace("\n", " ")))
    print(summ)


def replay_smt(path):
    """`--replay` for an engine-M counterexample: the named query is REGENERATED from /repo's current
    source and decided again by both solvers (the stored script is the evidence of the original
    run; the functions are crate-private, so there is no native replay).  True = still violated."""
    import re as _re
    first = open(path).readline()
    m = _re.search(r"query (\S+)", first)
    if not m:
        return False
    res, _s = main("quick", None, m.group(1))
    for r in res:
        print("replay %s: %s %s" % (r["harness"], r["status"], r["why"][:300].replace("\n", " ")))
    return any(r["status"] == "fail" for r in res)
