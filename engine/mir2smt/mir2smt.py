#!/usr/bin/env python3
"""MIR -> SMT-LIB2 translation of small loop-free integer functions (engine M).

Input : the text MIR of a crate (`cargo +nightly rustc -- -Zunpretty=mir -C overflow-checks=on`).
Output: for a named function, a symbolic summary  (result term, panic condition)  over
        (_ BitVec 64) variables for its arguments and the fields reached through `&self`.

Supported subset (anything else raises Unsupported -> the check is inconclusive, never a pass):
  places     _N, (_N.K: T), ((*_N).K: T), nested projections, (*_N)
  operands   copy P, move P, const <int>_<ty>, const true/false
  rvalues    operand, &P, BinOp(a, b) for Add Sub Mul Div Rem BitAnd BitOr BitXor Shl Shr Eq Ne Lt Le
             Gt Ge, {Add,Sub,Mul}WithOverflow, Not, Neg, `as` integer / pointer<->usize casts,
             aggregate struct literals `Name { f: x, .. }` and tuples
  terminators return, goto, assert(cond) (failure = panic), switchInt, unreachable,
             calls to other translated functions or to the built-in models below
Loops are rejected (the CFG must be acyclic).
"""
import re
import sys


class Unsupported(Exception):
    pass


W = 64


def bv(n, w=W):
    return "(_ bv%d %d)" % (n % (1 << w), w)


class Val:
    """an SMT term with a sort tag ('bv', 'bool') or a struct (dict index -> Val) or a reference (path)"""

    def __init__(self, kind, term=None, fields=None, w=W):
        self.kind = kind
        self.term = term
        self.fields = fields
        self.w = w

    def __repr__(self):
        return "Val(%s,%s)" % (self.kind, self.term if self.kind != "struct" else self.fields)


def BV(term, w=W):
    return Val("bv", term, w=w)


def BOOL(term):
    return Val("bool", term)


class SymStruct(Val):
    """lazily materialised symbolic struct: field access creates fresh variables named by path"""

    def __init__(self, name, decls):
        super().__init__("struct", fields={})
        self.name = name
        self.decls = decls

    def get(self, idx, ty):
        if idx not in self.fields:
            nm = "%s_%d" % (self.name, idx)
            if is_int_ty(ty):
                self.decls.append((nm, int_width(ty)))
                self.fields[idx] = BV(nm, int_width(ty))
            elif ty == "bool":
                self.decls.append((nm, 0))
                self.fields[idx] = BOOL(nm)
            else:
                self.fields[idx] = SymStruct(nm, self.decls)
        return self.fields[idx]


INT_TYS = {"usize": 64, "u64": 64, "u32": 32, "u16": 16, "u8": 8, "isize": 64, "i64": 64, "i32": 32, "i16": 16,
           "i8": 8, "u128": 128, "i128": 128}


def is_int_ty(t):
    t = t.strip()
    return t in INT_TYS or t.startswith("*const") or t.startswith("*mut")


def int_width(t):
    t = t.strip()
    return INT_TYS.get(t, 64)


def is_signed(t):
    return t.strip().startswith("i")


# ------------------------------------------------------------------------------------------------
# parsing
# ------------------------------------------------------------------------------------------------

FN_RE = re.compile(r"^fn (.+?)\((.*)\) -> (.+) \{$")


class Function:
    def __init__(self, name, params, ret, locals_, blocks):
        self.name = name
        self.params = params      # [(local, type)]
        self.ret = ret
        self.locals = locals_     # local -> type
        self.blocks = blocks      # label -> (statements, terminator)


def parse_mir(text):
    """returns {full_name: Function} for every fn in the dump (bodies parsed lazily)"""
    fns = {}
    lines = text.split("\n")
    i = 0
    n = len(lines)
    while i < n:
        m = FN_RE.match(lines[i])
        if m and not lines[i].startswith("fn {"):
            j = i + 1
            while j < n and lines[j] != "}":
                j += 1
            fns.setdefault(m.group(1), (m, lines[i + 1:j]))
            i = j
        i += 1
    return fns


def split_top(s, sep=","):
    out, depth, cur = [], 0, ""
    for ch in s:
        if ch in "([{<":
            depth += 1
        elif ch in ")]}>":
            depth -= 1
        if ch == sep and depth == 0:
            out.append(cur.strip())
            cur = ""
        else:
            cur += ch
    if cur.strip():
        out.append(cur.strip())
    return out


def build_function(name, entry):
    m, body = entry
    params = []
    for p in split_top(m.group(2)):
        if not p:
            continue
        loc, ty = p.split(":", 1)
        params.append((loc.strip(), ty.strip()))
    locals_ = dict(params)
    blocks = {}
    cur = None
    stmts = []
    for ln in body:
        s = ln.strip()
        if not s or s.startswith("debug ") or s.startswith("scope ") or s == "}" and cur is None:
            continue
        lm = re.match(r"let (?:mut )?(_\d+): (.*);$", s)
        if lm and cur is None:
            locals_[lm.group(1)] = lm.group(2)
            continue
        bm = re.match(r"(bb\d+)(?: \(cleanup\))?: \{$", s)
        if bm:
            cur = bm.group(1)
            stmts = []
            continue
        if s == "}" and cur is not None:
            blocks[cur] = stmts
            cur = None
            continue
        if cur is not None:
            stmts.append(s)
    return Function(name, params, m.group(3).strip(), locals_, blocks)


# ------------------------------------------------------------------------------------------------
# symbolic execution
# ------------------------------------------------------------------------------------------------

class Ctx:
    def __init__(self, fns, field_names=None):
        self.fns = fns
        self.built = {}
        self.decls = []          # (name, width) ; width 0 = Bool ; or (name, width, defining term)
        self.fresh = 0
        self.field_names = field_names or {}

    def func(self, name):
        if name not in self.built:
            self.built[name] = build_function(name, self.fns[name])
        return self.built[name]

    def find(self, suffix):
        c = [k for k in self.fns if k.endswith(suffix)]
        if len(c) != 1:
            raise Unsupported("function %r: %d candidates %s" % (suffix, len(c), c[:4]))
        return c[0]

    def new_var(self, prefix, w):
        self.fresh += 1
        nm = "%s_%d" % (prefix, self.fresh)
        self.decls.append((nm, w))
        return nm

    def share(self, val):
        """name big terms (define-fun) so that the script stays a DAG instead of an exploding tree"""
        if val is None or val.kind not in ("bv", "bool") or len(val.term) < 48:
            return val
        self.fresh += 1
        nm = "t%d" % self.fresh
        self.decls.append((nm, 0 if val.kind == "bool" else val.w, val.term))
        return Val(val.kind, nm, w=val.w)

    def share_cond(self, term):
        if len(term) < 48:
            return term
        return self.share(BOOL(term)).term


def ite(c, a, b):
    if a == b:
        return a
    return "(ite %s %s %s)" % (c, a, b)


def merge_vals(c, a, b):
    if a is None:
        return b
    if b is None:
        return a
    if a.kind == "struct" or b.kind == "struct":
        if not (a.kind == "struct" and b.kind == "struct"):
            raise Unsupported("merge of struct with scalar")
        keys = set(a.fields) | set(b.fields)
        return Val("struct", fields={k: merge_vals(c, a.fields.get(k), b.fields.get(k)) for k in keys})
    if a.kind == "ref" or b.kind == "ref":
        if a.kind == b.kind and a.term == b.term:
            return a
        raise Unsupported("merge of different references")
    return Val(a.kind, ite(c, a.term, b.term), w=a.w)


PLACE_FIELD = re.compile(r"^\((.*)\.(\d+): (.*)\)$")


def parse_place(p):
    """returns (base_local, [(kind, idx, ty)]) where kind in {'field','deref'}"""
    p = p.strip()
    m = PLACE_FIELD.match(p)
    if m:
        # find the split point of the *last* `.N: ty` at depth 0 inside the outer parens
        inner = p[1:-1]
        depth = 0
        pos = None
        for i, ch in enumerate(inner):
            if ch in "([{<":
                depth += 1
            elif ch in ")]}>":
                depth -= 1
            elif ch == "." and depth == 0:
                mm = re.match(r"\.(\d+): ", inner[i:])
                if mm:
                    pos = i
        if pos is None:
            raise Unsupported("place " + p)
        base = inner[:pos]
        mm = re.match(r"\.(\d+): (.*)$", inner[pos:])
        b, proj = parse_place(base)
        return b, proj + [("field", int(mm.group(1)), mm.group(2))]
    if p.startswith("(*") and p.endswith(")"):
        b, proj = parse_place(p[2:-1])
        return b, proj + [("deref", None, None)]
    if re.match(r"^_\d+$", p):
        return p, []
    raise Unsupported("place " + p)


class Frame:
    def __init__(self, ctx, fn, args):
        self.ctx = ctx
        self.fn = fn
        self.env = {}
        for (loc, _ty), v in zip(fn.params, args):
            self.env[loc] = v

    # ---- places ----
    def read_place(self, p, env):
        base, proj = parse_place(p)
        if base not in env:
            raise Unsupported("read of unassigned local %s in %s" % (base, self.fn.name))
        v = env[base]
        for kind, idx, ty in proj:
            if kind == "deref":
                if v.kind == "ref":
                    v = v.fields  # referent value
                # references to symbolic structs are represented by the struct itself
                continue
            if isinstance(v, SymStruct):
                v = v.get(idx, ty)
            elif v.kind == "struct":
                if idx not in v.fields:
                    raise Unsupported("field %d of %s not set" % (idx, p))
                v = v.fields[idx]
            elif v.kind == "ref":
                vv = v.fields
                v = vv.get(idx, ty) if isinstance(vv, SymStruct) else vv.fields[idx]
            else:
                raise Unsupported("projection on scalar: " + p)
        return v

    def write_place(self, p, val, env):
        val = self.ctx.share(val) if val is not None and val.kind in ("bv", "bool") else val
        if val is not None and val.kind == "struct" and not isinstance(val, SymStruct):
            val = Val("struct", fields={k: (self.ctx.share(v) if v is not None and v.kind in ("bv", "bool") else v) for k, v in val.fields.items()})
        base, proj = parse_place(p)
        if not proj:
            env[base] = val
            return
        if any(k == "deref" for k, _, _ in proj):
            raise Unsupported("write through a reference: " + p)
        cur = env.get(base)
        if cur is None or cur.kind != "struct" or isinstance(cur, SymStruct):
            cur = Val("struct", fields=dict(cur.fields) if cur is not None and cur.kind == "struct" else {})
        else:
            cur = Val("struct", fields=dict(cur.fields))
        env[base] = cur
        node = cur
        for (k, idx, ty) in proj[:-1]:
            nxt = node.fields.get(idx)
            nxt = Val("struct", fields=dict(nxt.fields) if nxt is not None and nxt.kind == "struct" else {})
            node.fields[idx] = nxt
            node = nxt
        node.fields[proj[-1][1]] = val

    # ---- operands ----
    def operand(self, o, env):
        o = o.strip()
        if o.startswith("copy ") or o.startswith("move "):
            return self.read_place(o[5:], env)
        m = re.match(r"^const (-?\d+)_(\w+)$", o)
        if m:
            return BV(bv(int(m.group(1)), int_width(m.group(2))), int_width(m.group(2)))
        if o == "const true":
            return BOOL("true")
        if o == "const false":
            return BOOL("false")
        m = re.match(r"^const \{0x([0-9a-f]+) as .*\}$", o)
        if m:
            return BV(bv(int(m.group(1), 16)))
        raise Unsupported("operand " + o)

    # ---- rvalues ----
    def rvalue(self, rv, env, dest_ty):
        rv = rv.strip()
        m = re.match(r"^(\w+)\((.*)\)$", rv)
        if m and m.group(1) in BINOPS:
            a, b = [self.operand(x, env) for x in split_top(m.group(2))]
            return binop(m.group(1), a, b, dest_ty)
        if m and m.group(1) in ("Not", "Neg"):
            a = self.operand(m.group(2), env)
            if a.kind == "bool":
                return BOOL("(not %s)" % a.term)
            return BV("(bvnot %s)" % a.term if m.group(1) == "Not" else "(bvneg %s)" % a.term, a.w)
        if rv.startswith("&"):
            p = re.sub(r"^&(mut |raw const |raw mut )?", "", rv)
            return self.read_place(p, env)  # references are represented by the referent
        m = re.match(r"^(.*) as (.*?) \((\w+)\)$", rv)
        if m:
            a = self.operand(m.group(1), env)
            kind = m.group(3)
            tw = int_width(m.group(2))
            if kind in ("IntToInt", "PointerExposeProvenance", "PointerWithExposedProvenance", "PtrToPtr", "Transmute"):
                if a.kind != "bv":
                    raise Unsupported("cast of non-integer: " + rv)
                if tw == a.w:
                    return BV(a.term, tw)
                if tw < a.w:
                    return BV("((_ extract %d 0) %s)" % (tw - 1, a.term), tw)
                return BV("((_ zero_extend %d) %s)" % (tw - a.w, a.term), tw)
            raise Unsupported("cast kind " + kind)
        if rv.startswith("(") and rv.endswith(")") and not PLACE_FIELD.match(rv):
            parts = split_top(rv[1:-1])
            return Val("struct", fields={i: self.operand(x, env) for i, x in enumerate(parts)})
        m = re.match(r"^([\w:<>, ]+?) \{ (.*) \}$", rv)
        if m:
            fields = {}
            for i, kv in enumerate(split_top(m.group(2))):
                _k, v = kv.split(":", 1)
                fields[i] = self.operand(v, env)
            return Val("struct", fields=fields)
        return self.operand(rv, env)

    # ---- execution: returns (ret Val or None, panic_condition term) ----
    def run(self, depth=0):
        fn = self.fn
        if depth > 12:
            raise Unsupported("call depth")
        # topological order of the acyclic CFG
        succs = {}
        for lbl, stmts in fn.blocks.items():
            succs[lbl] = targets(stmts[-1]) if stmts else []
        order = topo(succs, "bb0")
        state = {"bb0": ("true", dict(self.env))}
        panic = "false"
        ret_val, ret_cond = None, "false"
        for lbl in order:
            if lbl not in state:
                continue
            cond, env = state.pop(lbl)
            cond = self.ctx.share_cond(cond)
            stmts = fn.blocks[lbl]
            for s in stmts[:-1]:
                self.statement(s, env)
            t = stmts[-1]
            outs, pterm, rv = self.terminator(t, env, cond, depth)
            if pterm is not None:
                panic = "(or %s %s)" % (panic, pterm)
            if rv is not None:
                ret_val = merge_vals(cond, rv, ret_val) if ret_val is not None else rv
                ret_cond = "(or %s %s)" % (ret_cond, cond)
            for (tgt, c, e) in outs:
                if tgt in state:
                    oc, oe = state[tgt]
                    keys = set(oe) | set(e)
                    merged = {}
                    for k in keys:
                        if k in oe and k in e:
                            merged[k] = merge_vals(c, e[k], oe[k])
                        # a local set on only one path is dead on the other
                        elif k in e:
                            merged[k] = e[k]
                        else:
                            merged[k] = oe[k]
                    state[tgt] = ("(or %s %s)" % (oc, c), merged)
                else:
                    state[tgt] = (c, e)
        if ret_val is not None and ret_val.kind in ("bv", "bool"):
            ret_val = self.ctx.share(ret_val)
        return ret_val, self.ctx.share_cond(panic)

    def statement(self, s, env):
        if s.startswith("StorageLive") or s.startswith("StorageDead") or s.startswith("nop") or s.startswith("FakeRead") \
                or s.startswith("PlaceMention") or s.startswith("AscribeUserType") or s.startswith("Retag"):
            return
        m = re.match(r"^(.+?) = (.*);$", s)
        if not m:
            raise Unsupported("statement " + s)
        dest, rv = m.group(1), m.group(2)
        base, _ = parse_place(dest)
        dty = self.fn.locals.get(base, "usize") if dest == base else "usize"
        self.write_place(dest, self.rvalue(rv, env, dty), env)

    def terminator(self, t, env, cond, depth):
        t = t.rstrip(";")
        if t == "return":
            return [], None, env.get("_0", Val("struct", fields={}))
        if t == "unreachable":
            return [], None, None
        m = re.match(r"^goto -> (bb\d+)$", t)
        if m:
            return [(m.group(1), cond, env)], None, None
        m = re.match(r"^assert\((.*?), \".*\) -> \[success: (bb\d+).*\]$", t)
        if m:
            c = m.group(1).strip()
            neg = c.startswith("!")
            v = self.operand(c[1:] if neg else c, env)
            ok = "(not %s)" % v.term if neg else v.term
            return [(m.group(2), "(and %s %s)" % (cond, ok), env)], "(and %s (not %s))" % (cond, ok), None
        m = re.match(r"^switchInt\((.*)\) -> \[(.*)\]$", t)
        if m:
            v = self.operand(m.group(1), env)
            outs = []
            taken = []
            for arm in split_top(m.group(2)):
                k, tgt = [x.strip() for x in arm.split(":")]
                if k == "otherwise":
                    c = "(and %s)" % " ".join(["true"] + ["(not %s)" % x for x in taken])
                else:
                    if v.kind == "bool":
                        c = v.term if int(k) != 0 else "(not %s)" % v.term
                    else:
                        c = "(= %s %s)" % (v.term, bv(int(k), v.w))
                    taken.append(c)
                outs.append((tgt, "(and %s %s)" % (cond, c), dict(env)))
            return outs, None, None
        m = re.match(r"^(.+?) = (.+?)\((.*)\) -> \[return: (bb\d+).*\]$", t)
        if m:
            dest, callee, args, tgt = m.group(1), m.group(2).strip(), m.group(3), m.group(4)
            argv = [self.operand(a, env) for a in split_top(args)]
            rv, p = self.call(callee, argv, depth)
            self.write_place(dest, rv, env)
            pterm = None if p == "false" else "(and %s %s)" % (cond, p)
            return [(tgt, cond if p == "false" else "(and %s (not %s))" % (cond, p), env)], pterm, None
        raise Unsupported("terminator " + t)

    def call(self, callee, argv, depth):
        c = callee
        # ---- built-in models of core functions (documented semantics) ----
        if re.search(r"num::<impl u(size|64|32)>::is_multiple_of$", c):
            a, b = argv
            z = bv(0, a.w)
            return BOOL("(ite (= %s %s) (= %s %s) (= (bvurem %s %s) %s))" % (b.term, z, a.term, z, a.term, b.term, z)), "false"
        if re.search(r"(cmp::Ord>::max|cmp::max::<u\w+>|<u\w+ as Ord>::max)$", c) or c.endswith("Ord::max"):
            a, b = argv
            return BV("(ite (bvuge %s %s) %s %s)" % (a.term, b.term, a.term, b.term), a.w), "false"
        if re.search(r"(cmp::Ord>::min|<u\w+ as Ord>::min)$", c) or c.endswith("Ord::min"):
            a, b = argv
            return BV("(ite (bvule %s %s) %s %s)" % (a.term, b.term, a.term, b.term), a.w), "false"
        if c.endswith("Layout::from_size_align_unchecked"):
            return Val("struct", fields={0: argv[0], 1: argv[1]}), "false"
        if re.search(r"num::<impl usize>::next_power_of_two$", c) or re.search(r"next_multiple_of$", c):
            raise Unsupported("builtin not modelled: " + c)
        # ---- another function of the dump ----
        target = resolve(self.ctx, c)
        f = self.ctx.func(target)
        fr = Frame(self.ctx, f, argv)
        return fr.run(depth + 1)


def strip_generics(n):
    out, depth = "", 0
    for ch in n:
        if ch == "<":
            depth += 1
        elif ch == ">":
            depth -= 1
        elif depth == 0:
            out += ch
    return out.replace("::::", "::")


def resolve(ctx, callee):
    """map a callee as printed at a call site (`align`, `TypeDetail::alignment`,
    `MessageTypeDetails::chunk_layout`) to the unique function of the dump"""
    c = strip_generics(callee).strip(":")
    parts = [x for x in c.split("::") if x]
    method = parts[-1]
    cands = []
    for k, (m, _b) in ctx.fns.items():
        kk = strip_generics(k)
        if not (kk == method or kk.endswith("::" + method)):
            continue
        if len(parts) >= 2:
            # Type::method - the dump names impl blocks by location, so match the receiver type
            ty = parts[-2]
            params = m.group(2)
            first = params.split(",")[0] if params else ""
            fty = strip_generics(first.split(":", 1)[1] if ":" in first else "").strip().lstrip("&").replace("mut ", "").strip()
            if fty.split("::")[-1] != ty and not kk.endswith("::" + ty + "::" + method):
                continue
        cands.append(k)
    if len(cands) != 1:
        raise Unsupported("call target %r: %d candidates %s" % (callee, len(cands), cands[:3]))
    return cands[0]


def last2(name):
    """type + method, generics and impl-location noise removed"""
    n = re.sub(r"<impl at [^>]*>", "", name)
    n = re.sub(r"::<[^>]*>", "", n)
    parts = [p for p in n.split("::") if p]
    return tuple(parts[-2:]) if len(parts) >= 2 else tuple(parts)


BINOPS = {"Add", "Sub", "Mul", "Div", "Rem", "BitAnd", "BitOr", "BitXor", "Shl", "Shr", "Eq", "Ne", "Lt", "Le", "Gt",
          "Ge", "AddWithOverflow", "SubWithOverflow", "MulWithOverflow", "AddUnchecked", "SubUnchecked", "MulUnchecked"}


def binop(op, a, b, dest_ty):
    if a.kind == "bool" and b.kind == "bool":
        if op in ("Eq",):
            return BOOL("(= %s %s)" % (a.term, b.term))
        if op in ("Ne", "BitXor"):
            return BOOL("(xor %s %s)" % (a.term, b.term))
        if op == "BitAnd":
            return BOOL("(and %s %s)" % (a.term, b.term))
        if op == "BitOr":
            return BOOL("(or %s %s)" % (a.term, b.term))
        raise Unsupported("bool binop " + op)
    w = a.w
    x, y = a.term, b.term
    if b.w != w:
        if op in ("Shl", "Shr"):
            y = "((_ zero_extend %d) %s)" % (w - b.w, y) if b.w < w else "((_ extract %d 0) %s)" % (w - 1, y)
        else:
            raise Unsupported("width mismatch in " + op)
    simple = {"Add": "bvadd", "Sub": "bvsub", "Mul": "bvmul", "Div": "bvudiv", "Rem": "bvurem", "BitAnd": "bvand",
              "BitOr": "bvor", "BitXor": "bvxor", "Shl": "bvshl", "Shr": "bvlshr", "AddUnchecked": "bvadd",
              "SubUnchecked": "bvsub", "MulUnchecked": "bvmul"}
    if op in simple:
        return BV("(%s %s %s)" % (simple[op], x, y), w)
    cmpo = {"Eq": "=", "Lt": "bvult", "Le": "bvule", "Gt": "bvugt", "Ge": "bvuge"}
    if op in cmpo:
        return BOOL("(%s %s %s)" % (cmpo[op], x, y))
    if op == "Ne":
        return BOOL("(not (= %s %s))" % (x, y))
    if op == "AddWithOverflow":
        r = "(bvadd %s %s)" % (x, y)
        return Val("struct", fields={0: BV(r, w), 1: BOOL("(bvult %s %s)" % (r, x))})
    if op == "SubWithOverflow":
        return Val("struct", fields={0: BV("(bvsub %s %s)" % (x, y), w), 1: BOOL("(bvult %s %s)" % (x, y))})
    if op == "MulWithOverflow":
        # `mulovf<w>` is defined per solver by the caller (z3: bvumul_noovfl, cvc5: bvumulo; see MULOVF_DEFS)
        return Val("struct", fields={0: BV("(bvmul %s %s)" % (x, y), w), 1: BOOL("(mulovf%d %s %s)" % (w, x, y))})
    raise Unsupported("binop " + op)


def targets(term):
    return re.findall(r"bb\d+", term.split("->", 1)[1]) if "->" in term else []


def topo(succs, root):
    seen, order, onstack = set(), [], set()

    def visit(n):
        if n in onstack:
            raise Unsupported("loop in CFG at " + n)
        if n in seen:
            return
        onstack.add(n)
        for s in succs.get(n, []):
            if s in succs:
                visit(s)
        onstack.discard(n)
        seen.add(n)
        order.append(n)

    visit(root)
    return list(reversed(order))


def summarize(ctx, suffix, arg_names):
    """symbolically execute the function whose full name ends with `suffix`;
    arguments: names; '&struct' arguments become lazily materialised symbolic structs"""
    name = ctx.find(suffix)
    fn = ctx.func(name)
    args = []
    for (loc, ty), an in zip(fn.params, arg_names):
        if ty.startswith("&") and not is_int_ty(ty[1:].strip()):
            args.append(SymStruct(an, ctx.decls))
        elif is_int_ty(ty):
            ctx.decls.append((an, int_width(ty)))
            args.append(BV(an, int_width(ty)))
        else:
            args.append(SymStruct(an, ctx.decls))
    fr = Frame(ctx, fn, args)
    ret, panic = fr.run()
    return fn, args, ret, panic


MULOVF_DEFS = {
    "z3": "(define-fun mulovf64 ((x (_ BitVec 64)) (y (_ BitVec 64))) Bool (not (bvumul_noovfl x y)))",
    "cvc5": "(define-fun mulovf64 ((x (_ BitVec 64)) (y (_ BitVec 64))) Bool (bvumulo x y))",
    # portable fall-back: the upper half of the double-width product is non-zero
    "generic": "(define-fun mulovf64 ((x (_ BitVec 64)) (y (_ BitVec 64))) Bool (not (= ((_ extract 127 64) (bvmul ((_ zero_extend 64) x) ((_ zero_extend 64) y))) (_ bv0 64))))",
}


def smt_script(decls, assertions, get=None, dialect="generic"):
    out = ["(set-logic ALL)", MULOVF_DEFS[dialect]]
    seen = set()
    for d in decls:
        n, w = d[0], d[1]
        if n in seen:
            continue
        seen.add(n)
        sort = "Bool" if w == 0 else "(_ BitVec %d)" % w
        if len(d) == 3:
            out.append("(define-fun %s () %s %s)" % (n, sort, d[2]))
        else:
            out.append("(declare-const %s %s)" % (n, sort))
    for a in assertions:
        out.append("(assert %s)" % a)
    out.append("(check-sat)")
    if get:
        out.append("(get-value (%s))" % " ".join(get))
    return "\n".join(out) + "\n"
