//! C19 — ServiceName / NodeName (top-level iceoryx2 crate, feature `iox2`): accepted exactly when
//! the documented rules hold, round-trip unchanged.

use crate::common::*;
use iceoryx2::node::node_name::NodeName;
use iceoryx2::service::service_name::{ServiceName, ServiceNameError};

/// documented: a service name is a non-empty string of at most 255 code points < 128 without NUL
/// that does not start with the reserved prefix "iox2://"
proof!(10, fn c19_service_name_new() {
    let b: [u8; 8] = kani::any();
    let n: usize = kani::any();
    kani::assume(n <= 8);
    let s = match core::str::from_utf8(&b[..n]) {
        Ok(s) => s,
        Err(_) => return,
    };
    let mut ascii = true;
    let mut i = 0;
    while i < 8 {
        if i < n && (b[i] == 0 || b[i] >= 128) {
            ascii = false;
        }
        i += 1;
    }
    let reserved = n >= 7 && b[0] == b'i' && b[1] == b'o' && b[2] == b'x' && b[3] == b'2' && b[4] == b':' && b[5] == b'/' && b[6] == b'/';
    let ok = n > 0 && ascii && !reserved;
    let r = ServiceName::new(s);
    assert!(r.is_ok() == ok, "c19: service name acceptance differs from the documented rules");
    if let Ok(name) = r {
        assert!(name.as_str().len() == n, "c19: service name does not round-trip (length)");
        let got = name.as_str().as_bytes();
        let mut i = 0;
        while i < 8 {
            if i < n {
                assert!(got[i] == b[i], "c19: service name does not round-trip (bytes)");
            }
            i += 1;
        }
    } else if n == 0 || reserved {
        assert!(r.err() == Some(ServiceNameError::InvalidContent));
    }
    kani::cover!(reserved, "reserved prefix");
    kani::cover!(ok && n == 8, "longest accepted name");
    canaries();
});

proof!(10, fn c19_node_name_new() {
    let b: [u8; 4] = kani::any();
    let n: usize = kani::any();
    kani::assume(n <= 4);
    let s = match core::str::from_utf8(&b[..n]) {
        Ok(s) => s,
        Err(_) => return,
    };
    let mut ascii = true;
    let mut i = 0;
    while i < 4 {
        if i < n && (b[i] == 0 || b[i] >= 128) {
            ascii = false;
        }
        i += 1;
    }
    let r = NodeName::new(s);
    assert!(r.is_ok() == ascii, "c19: node name acceptance differs from the documented rules");
    if let Ok(name) = r {
        let got = name.as_str().as_bytes();
        assert!(got.len() == n);
        let mut i = 0;
        while i < 4 {
            if i < n {
                assert!(got[i] == b[i], "c19: node name does not round-trip");
            }
            i += 1;
        }
    }
    kani::cover!(ascii && n == 4, "accepted");
    kani::cover!(!ascii, "rejected");
    canaries();
});
