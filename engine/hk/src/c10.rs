//! c10 harnesses
