//! C10 — port registry (mpmc::Container): entries are exactly what was added, removed entries
//! disappear, the (capacity+1)-th add is refused, recovery removes exactly a dead owner's entries.
//!
//! The snapshot path (`get_state` / `update_state`) is exercised by `c10_state_refresh*`; whether
//! it fits the solver is decided per run (the driver reports out-of-memory as inconclusive and
//! the manifest only claims what completes, see DESIGN.md).

use crate::common::*;
use iceoryx2_bb_lock_free::mpmc::container::*;
use iceoryx2_bb_lock_free::mpmc::robust_unique_index_set::OwnerId;
use iceoryx2_bb_lock_free::mpmc::unique_index_set_enums::{ReleaseMode, ReleaseState};

type Pair = (u16, u16);
fn pair(v: u16) -> Pair {
    (v, !v)
}

/// add / remove / recover history without snapshots: slots, handles, limits
proof!(8, fn c10_add_remove_history() {
    const CAP: usize = 2;
    let c = FixedSizeContainer::<Pair, CAP>::new();
    assert!(c.capacity() == CAP);
    let mut h: [Option<ContainerHandle>; CAP] = [None; CAP];
    let mut val = [0u16; CAP];
    let mut own = [0u64; CAP];
    let mut refused = false;
    let mut reused = false;
    let mut freed_once = [false; CAP];
    let mut step = 0;
    while step < 3 {
        let op: u8 = kani::any();
        kani::assume(op < 2);
        let who: u64 = kani::any();
        kani::assume(who == 1 || who == 2);
        let mut live = 0;
        let mut i = 0;
        while i < CAP {
            if h[i].is_some() {
                live += 1;
            }
            i += 1;
        }
        match op {
            0 => {
                let v: u16 = kani::any();
                match c.add(pair(v), OwnerId::new(who).unwrap()) {
                    Ok((p, handle)) => {
                        let i = handle.index();
                        assert!(i < CAP && h[i].is_none(), "c10: a live registry slot was handed out again");
                        assert!(unsafe { *p } == pair(v), "c10: slot does not hold the added data");
                        if freed_once[i] {
                            reused = true;
                        }
                        h[i] = Some(handle);
                        val[i] = v;
                        own[i] = who;
                    }
                    Err(e) => {
                        assert!(e == ContainerAddFailure::OutOfSpace);
                        assert!(live == CAP, "c10: add refused although a slot is free");
                        refused = true;
                    }
                }
            }
            1 => {
                let i: usize = kani::any();
                kani::assume(i < CAP && h[i].is_some());
                let r = unsafe { c.remove(h[i].unwrap(), ReleaseMode::Default) };
                assert!(r == Ok(ReleaseState::Unlocked), "c10: removing a live entry failed");
                // a second remove with the same handle is refused
                assert!(unsafe { c.remove(h[i].unwrap(), ReleaseMode::Default) }.is_err(), "c10: double remove accepted");
                h[i] = None;
                freed_once[i] = true;
            }
            _ => {
                // recover everything owned by `who`
                let mut seen = [false; CAP];
                unsafe {
                    c.recover(OwnerId::new(who).unwrap(), |v: Pair| {
                        assert!(v.1 == !v.0, "c10: recovery saw torn data");
                        true
                    }, ReleaseMode::Default)
                };
                let mut i = 0;
                while i < CAP {
                    if h[i].is_some() && own[i] == who {
                        seen[i] = true;
                        h[i] = None;
                        freed_once[i] = true;
                    }
                    i += 1;
                }
                let _ = seen;
            }
        }
        let mut live = 0;
        let mut i = 0;
        while i < CAP {
            if h[i].is_some() {
                live += 1;
            }
            i += 1;
        }
        assert!(c.is_empty() == (live == 0), "c10: is_empty differs from the model");
        step += 1;
    }
    // everything that is free is addable again
    let mut i = 0;
    let mut free = 0;
    while i < CAP {
        if h[i].is_none() {
            free += 1;
        }
        i += 1;
    }
    let mut k = 0;
    while k < CAP {
        if k < free {
            assert!(c.add(pair(7), OwnerId::new(3).unwrap()).is_ok(), "c10: a free slot is not addable (leak)");
        }
        k += 1;
    }
    assert!(c.add(pair(7), OwnerId::new(3).unwrap()).is_err());
    kani::cover!(refused, "add beyond the capacity refused");
    kani::cover!(reused, "a freed slot was reused");
    canaries();
});

pub unsafe fn byte_copy<T>(src: *const T, dst: *mut T, count: usize) {
    unsafe {
        let n = count * core::mem::size_of::<T>();
        let s = src as *const u8;
        let d = dst as *mut u8;
        let mut i = 0;
        while i < n {
            *d.add(i) = *s.add(i);
            i += 1;
        }
    }
}

/// snapshot refresh after a short concrete-shape history (capacity 1): the snapshot contains
/// exactly the live entry with exactly its data; "nothing changed" afterwards
proof_copy!(6, crate::c10::byte_copy, fn c10_state_refresh_cap1() {
    let c = FixedSizeContainer::<Pair, 1>::new();
    let v: u16 = kani::any();
    let o = OwnerId::new(1).unwrap();
    let mut st = c.get_state();
    assert!(st.get(0).is_none(), "c10: ghost entry in an empty registry");
    assert!(!unsafe { c.update_state(&mut st) }, "c10: refresh reports a change although nothing changed");
    let (_, h) = c.add(pair(v), o).unwrap();
    assert!(unsafe { c.update_state(&mut st) }, "c10: completed add not noticed by the next refresh");
    assert!(st.get(0) == Some(&pair(v)), "c10: snapshot data differs from what was added");
    assert!(!unsafe { c.update_state(&mut st) });
    unsafe { c.remove(h, ReleaseMode::Default).unwrap() };
    assert!(unsafe { c.update_state(&mut st) }, "c10: completed remove not noticed by the next refresh");
    assert!(st.get(0).is_none(), "c10: removed entry still reported (ghost)");
    let w: u16 = kani::any();
    let _ = c.add(pair(w), o).unwrap();
    assert!(unsafe { c.update_state(&mut st) });
    assert!(st.get(0) == Some(&pair(w)), "c10: reused slot reports stale data");
    core::mem::forget(st);
    canaries();
});

/// recovery of a dead owner removes exactly its entries and frees their slots
proof!(8, fn c10_recover_dead_owner() {
    let c = FixedSizeContainer::<Pair, 2>::new();
    let a: u16 = kani::any();
    let b: u16 = kani::any();
    let dead = OwnerId::new(1).unwrap();
    let live = OwnerId::new(2).unwrap();
    let dead_first: bool = kani::any();
    let (hd, hl) = if dead_first {
        let (_, hd) = c.add(pair(a), dead).unwrap();
        let (_, hl) = c.add(pair(b), live).unwrap();
        (hd, hl)
    } else {
        let (_, hl) = c.add(pair(b), live).unwrap();
        let (_, hd) = c.add(pair(a), dead).unwrap();
        (hd, hl)
    };
    let mut seen = 0;
    unsafe {
        c.recover(dead, |v: Pair| {
            assert!(v == pair(a), "c10: recovery saw data that the dead owner did not add");
            seen += 1;
            true
        }, ReleaseMode::Default)
    };
    assert!(seen == 1, "c10: recovery did not visit exactly the dead owner's entry");
    assert!(unsafe { c.remove(hd, ReleaseMode::Default) }.is_err(), "c10: recovered entry can still be removed");
    // the freed slot is addable, the live owner's entry is untouched
    let (p, h3) = c.add(pair(9), live).unwrap();
    assert!(h3.index() == hd.index() && unsafe { *p } == pair(9));
    assert!(c.add(pair(9), live).is_err());
    assert!(unsafe { c.remove(hl, ReleaseMode::Default) }.is_ok(), "c10: recovery disturbed a live owner's entry");
    canaries();
});
