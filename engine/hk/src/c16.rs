//! C16 — fixed-capacity containers match reference models and drop every element exactly once.
//!
//! History harnesses: the real constructor, then STEPS operations each chosen by `kani::any()`
//! with symbolic arguments, compared after every step with an array-backed model; element type
//! `Tracked` proves exactly-once drop and no access after drop.

use crate::common::track::*;
use crate::common::*;
use core::mem::MaybeUninit;
use core::ptr::NonNull;
use iceoryx2_bb_container::queue::*;
use iceoryx2_bb_container::vector::*;
use iceoryx2_bb_elementary::bump_allocator::BumpAllocator;
use iceoryx2_bb_elementary_traits::relocatable_container::RelocatableContainer;
use iceoryx2_bb_memory::pool_allocator::FixedSizePoolAllocator;

// ------------------------------------------------------------------------------------------
// vectors
// ------------------------------------------------------------------------------------------

struct VecModel<const CAP: usize> {
    id: [u8; CAP],
    val: [u8; CAP],
    len: usize,
}

impl<const CAP: usize> VecModel<CAP> {
    fn new() -> Self {
        Self { id: [0; CAP], val: [0; CAP], len: 0 }
    }
    fn insert(&mut self, idx: usize, id: u8, val: u8) {
        let mut i = CAP;
        while i > 0 {
            i -= 1;
            if i > idx && i <= self.len && i < CAP {
                self.id[i] = self.id[i - 1];
                self.val[i] = self.val[i - 1];
            }
        }
        self.id[idx] = id;
        self.val[idx] = val;
        self.len += 1;
    }
    fn remove(&mut self, idx: usize) -> (u8, u8) {
        let r = (self.id[idx], self.val[idx]);
        let mut i = 0;
        while i + 1 < CAP {
            if i >= idx && i + 1 < self.len {
                self.id[i] = self.id[i + 1];
                self.val[i] = self.val[i + 1];
            }
            i += 1;
        }
        self.len -= 1;
        r
    }
}

fn vec_compare<V: Vector<Tracked>, const CAP: usize>(v: &V, m: &VecModel<CAP>) {
    assert!(v.len() == m.len, "c16: vector length differs from the model");
    assert!(v.is_empty() == (m.len == 0));
    assert!(v.is_full() == (m.len == CAP));
    assert!(v.capacity() == CAP);
    let s = v.as_slice();
    assert!(s.len() == m.len);
    let mut i = 0;
    while i < CAP {
        if i < m.len {
            assert!(s[i].id == m.id[i], "c16: vector content differs from the model (identity)");
            assert!(s[i].val() == m.val[i], "c16: vector content differs from the model (value)");
        }
        i += 1;
    }
}

/// OPSET 0: push/pop/insert/remove   OPSET 1: push/truncate/clear/extend_from_slice/resize_with
/// (two smaller solver queries instead of one; every operation is in one of them, push in both)
fn vec_history<V: Vector<Tracked>, const CAP: usize, const STEPS: usize, const OPSET: u8>(v: &mut V) {
    let mut m = VecModel::<CAP>::new();
    let mut was_full = false;
    let mut refused = false;
    let mut step = 0;
    while step < STEPS {
        let sel: u8 = kani::any();
        kani::assume(sel < 5);
        let op: u8 = if OPSET == 0 {
            if sel >= 3 { 3 } else { sel }
        } else {
            if sel == 0 { 0 } else { sel + 3 }
        };
        let x: u8 = kani::any();
        let idx: usize = kani::any();
        kani::assume(idx <= CAP + 1);
        match op {
            0 => {
                let e = Tracked::new(x);
                let id = e.id;
                let r = v.push(e);
                if m.len < CAP {
                    assert!(r.is_ok(), "c16: push refused although there is room");
                    m.insert(m.len, id, x);
                } else {
                    assert!(r == Err(VectorModificationError::InsertWouldExceedCapacity));
                    assert!(!is_live(id), "c16: refused element leaked");
                    refused = true;
                }
            }
            1 if OPSET == 0 => match v.pop() {
                Some(e) => {
                    assert!(m.len > 0);
                    let (id, val) = m.remove(m.len - 1);
                    assert!(e.id == id && e.val() == val, "c16: pop returned the wrong element");
                }
                None => assert!(m.len == 0, "c16: pop returned None on a non-empty vector"),
            },
            2 if OPSET == 0 => {
                let e = Tracked::new(x);
                let id = e.id;
                let r = v.insert(idx, e);
                if m.len == CAP {
                    assert!(r == Err(VectorModificationError::InsertWouldExceedCapacity));
                    assert!(!is_live(id));
                    refused = true;
                } else if idx > m.len {
                    assert!(r == Err(VectorModificationError::OutOfBounds));
                    assert!(!is_live(id));
                } else {
                    assert!(r.is_ok());
                    m.insert(idx, id, x);
                }
            }
            3 if OPSET == 0 => match v.remove(idx) {
                Some(e) => {
                    assert!(idx < m.len, "c16: remove succeeded out of bounds");
                    let (id, val) = m.remove(idx);
                    assert!(e.id == id && e.val() == val, "c16: remove returned the wrong element");
                }
                None => assert!(idx >= m.len, "c16: remove refused a valid index"),
            },
            4 if OPSET == 1 => {
                v.truncate(idx);
                while m.len > idx {
                    let (id, _) = m.remove(m.len - 1);
                    assert!(!is_live(id), "c16: truncated element not dropped");
                }
            }
            5 if OPSET == 1 => {
                v.clear();
                while m.len > 0 {
                    let (id, _) = m.remove(m.len - 1);
                    assert!(!is_live(id), "c16: cleared element not dropped");
                }
            }
            6 if OPSET == 1 => {
                // extend_from_slice clones: the new element gets a fresh id
                let src = [Tracked::new(x)];
                let first_new = unsafe { NEXT } as u8;
                let n = if idx >= 1 { 1 } else { 0 };
                let r = v.extend_from_slice(&src[..n]);
                if m.len + n <= CAP {
                    assert!(r.is_ok());
                    if n == 1 {
                        m.insert(m.len, first_new, x);
                    }
                } else {
                    assert!(r == Err(VectorModificationError::InsertWouldExceedCapacity));
                    assert!(unsafe { NEXT } as u8 == first_new, "c16: refused extend cloned elements");
                    refused = true;
                }
            }
            _ if OPSET == 0 => {}
            _ => {
                // resize_with: grows with fresh elements or truncates
                let first_new = unsafe { NEXT } as u8;
                let r = v.resize_with(idx, || Tracked::new(x));
                if idx > CAP {
                    assert!(r == Err(VectorModificationError::InsertWouldExceedCapacity));
                    assert!(unsafe { NEXT } as u8 == first_new);
                } else {
                    assert!(r.is_ok());
                    while m.len > idx {
                        let (id, _) = m.remove(m.len - 1);
                        assert!(!is_live(id));
                    }
                    let mut k = 0u8;
                    while m.len < idx {
                        m.insert(m.len, first_new + k, x);
                        k += 1;
                    }
                }
            }
        }
        vec_compare::<V, CAP>(v, &m);
        if m.len == CAP {
            was_full = true;
        }
        step += 1;
    }
    kani::cover!(was_full, "vector became full");
    kani::cover!(refused, "an operation beyond capacity was refused");
}

macro_rules! static_vec_h {
    ($name:ident, $cap:literal, $steps:literal, $opset:literal) => {
        proof!(9, fn $name() {
            {
                let mut v = StaticVec::<Tracked, $cap>::new();
                vec_history::<_, $cap, $steps, $opset>(&mut v);
            }
            assert_all_dropped();
            canaries();
        });
    };
}
static_vec_h!(c16_static_vec_history_a, 2, 4, 0);
static_vec_h!(c16_static_vec_history_b, 2, 4, 1);
static_vec_h!(c16_static_vec_history_deep_a, 3, 6, 0);
static_vec_h!(c16_static_vec_history_deep_b, 3, 5, 1);

#[repr(C)]
struct RelocVecBlock<const CAP: usize> {
    vec: RelocatableVec<Tracked>,
    data: [MaybeUninit<Tracked>; CAP],
}

fn reloc_vec_run<const CAP: usize, const STEPS: usize, const OPSET: u8>() {
    {
        let mut b = RelocVecBlock::<CAP> {
            vec: unsafe { RelocatableVec::new_uninit(CAP) },
            data: [const { MaybeUninit::uninit() }; CAP],
        };
        let alloc = BumpAllocator::new(
            NonNull::new(b.data.as_mut_ptr() as *mut u8).unwrap(),
            core::mem::size_of::<[MaybeUninit<Tracked>; CAP]>(),
        );
        assert!(unsafe { b.vec.init(&alloc) }.is_ok());
        vec_history::<_, CAP, STEPS, OPSET>(&mut b.vec);
    }
    assert_all_dropped();
    canaries();
}

proof!(9, fn c16_relocatable_vec_history_a() { reloc_vec_run::<2, 4, 0>(); });
proof!(9, fn c16_relocatable_vec_history_b() { reloc_vec_run::<2, 4, 1>(); });
proof!(9, fn c16_relocatable_vec_history_deep_a() { reloc_vec_run::<3, 6, 0>(); });
proof!(9, fn c16_relocatable_vec_history_deep_b() { reloc_vec_run::<3, 5, 1>(); });

fn poly_vec_run<const CAP: usize, const STEPS: usize, const OPSET: u8>() {
    let mut mem = Block::<64>::new();
    {
        let alloc = FixedSizePoolAllocator::<2>::new(
            core::alloc::Layout::from_size_align(16, 4).unwrap(),
            NonNull::new(mem.0.as_mut_ptr()).unwrap(),
            48,
        );
        {
            let mut v = PolymorphicVec::<Tracked, _>::new(&alloc, CAP).unwrap();
            vec_history::<_, CAP, STEPS, OPSET>(&mut v);
            // try_clone copies element-wise into a second bucket
            let before = unsafe { NEXT };
            let c = v.try_clone().unwrap();
            assert!(c.len() == v.len());
            assert!(unsafe { NEXT } == before + v.len());
        }
        // both buckets were given back by the drops
        let l = core::alloc::Layout::from_size_align(16, 4).unwrap();
        use iceoryx2_bb_elementary_traits::allocator::Allocate;
        assert!(alloc.allocate(l).is_ok() && alloc.allocate(l).is_ok(), "c16: PolymorphicVec leaked its memory");
    }
    assert_all_dropped();
    canaries();
}

proof!(9, fn c16_polymorphic_vec_history_a() { poly_vec_run::<2, 3, 0>(); });
proof!(9, fn c16_polymorphic_vec_history_b() { poly_vec_run::<2, 3, 1>(); });
proof!(9, fn c16_polymorphic_vec_history_deep_a() { poly_vec_run::<3, 5, 0>(); });
proof!(9, fn c16_polymorphic_vec_history_deep_b() { poly_vec_run::<3, 4, 1>(); });

// ------------------------------------------------------------------------------------------
// queues (incl. overflowing push)
// ------------------------------------------------------------------------------------------

trait QLike {
    fn q_push(&mut self, v: Tracked) -> bool;
    fn q_pop(&mut self) -> Option<Tracked>;
    fn q_push_overflow(&mut self, v: Tracked) -> Option<Tracked>;
    fn q_peek(&self) -> Option<&Tracked>;
    fn q_clear(&mut self);
    fn q_len(&self) -> usize;
    fn q_is_empty(&self) -> bool;
    fn q_is_full(&self) -> bool;
    fn q_capacity(&self) -> usize;
}

impl QLike for Queue<Tracked> {
    fn q_push(&mut self, v: Tracked) -> bool { self.push(v) }
    fn q_pop(&mut self) -> Option<Tracked> { self.pop() }
    fn q_push_overflow(&mut self, v: Tracked) -> Option<Tracked> { self.push_with_overflow(v) }
    fn q_peek(&self) -> Option<&Tracked> { self.peek() }
    fn q_clear(&mut self) { self.clear() }
    fn q_len(&self) -> usize { self.len() }
    fn q_is_empty(&self) -> bool { self.is_empty() }
    fn q_is_full(&self) -> bool { self.is_full() }
    fn q_capacity(&self) -> usize { self.capacity() }
}

impl<const C: usize> QLike for FixedSizeQueue<Tracked, C> {
    fn q_push(&mut self, v: Tracked) -> bool { self.push(v) }
    fn q_pop(&mut self) -> Option<Tracked> { self.pop() }
    fn q_push_overflow(&mut self, v: Tracked) -> Option<Tracked> { self.push_with_overflow(v) }
    fn q_peek(&self) -> Option<&Tracked> { self.peek() }
    fn q_clear(&mut self) { self.clear() }
    fn q_len(&self) -> usize { self.len() }
    fn q_is_empty(&self) -> bool { self.is_empty() }
    fn q_is_full(&self) -> bool { self.is_full() }
    fn q_capacity(&self) -> usize { self.capacity() }
}

fn queue_history<Q: QLike, const CAP: usize, const STEPS: usize>(q: &mut Q) {
    let mut m = VecModel::<CAP>::new(); // index 0 = oldest
    let mut evicted = false;
    let mut wrapped = 0usize;
    let mut step = 0;
    while step < STEPS {
        let op: u8 = kani::any();
        let x: u8 = kani::any();
        match op {
            0 => {
                let e = Tracked::new(x);
                let id = e.id;
                let r = q.q_push(e);
                if m.len < CAP {
                    assert!(r, "c16: queue push refused although there is room");
                    m.insert(m.len, id, x);
                    wrapped += 1;
                } else {
                    assert!(!r, "c16: queue push beyond capacity accepted");
                    assert!(!is_live(id), "c16: refused element leaked");
                }
            }
            1 => match q.q_pop() {
                Some(e) => {
                    assert!(m.len > 0);
                    let (id, val) = m.remove(0);
                    assert!(e.id == id && e.val() == val, "c16: queue pop is not FIFO");
                }
                None => assert!(m.len == 0),
            },
            2 => {
                let e = Tracked::new(x);
                let id = e.id;
                let r = q.q_push_overflow(e);
                if m.len == CAP {
                    let (oid, oval) = m.remove(0);
                    match r {
                        Some(o) => assert!(o.id == oid && o.val() == oval, "c16: overflow did not evict the oldest"),
                        None => assert!(false, "c16: overflowing push on a full queue returned nothing"),
                    }
                    evicted = true;
                } else {
                    assert!(r.is_none(), "c16: overflowing push evicted although there was room");
                }
                m.insert(m.len, id, x);
                wrapped += 1;
            }
            3 => {
                q.q_clear();
                while m.len > 0 {
                    let (id, _) = m.remove(0);
                    assert!(!is_live(id), "c16: cleared queue element not dropped");
                }
            }
            _ => match q.q_peek() {
                Some(e) => assert!(m.len > 0 && e.id == m.id[0] && e.val() == m.val[0]),
                None => assert!(m.len == 0),
            },
        }
        assert!(q.q_len() == m.len);
        assert!(q.q_is_empty() == (m.len == 0));
        assert!(q.q_is_full() == (m.len == CAP));
        assert!(q.q_capacity() == CAP);
        step += 1;
    }
    // drain: the remaining content is exactly the model, oldest first
    while let Some(e) = q.q_pop() {
        assert!(m.len > 0);
        let (id, val) = m.remove(0);
        assert!(e.id == id && e.val() == val, "c16: final queue content differs from the model");
    }
    assert!(m.len == 0);
    kani::cover!(evicted, "overflowing push evicted the oldest element");
    kani::cover!(wrapped > CAP, "ring index wrapped around");
}

proof!(9, fn c16_fixed_size_queue_history() {
    {
        let mut q = FixedSizeQueue::<Tracked, 2>::new();
        queue_history::<_, 2, 4>(&mut q);
        // leave something inside for Drop
        q.push(Tracked::new(1));
    }
    assert_all_dropped();
    canaries();
});

proof!(9, fn c16_fixed_size_queue_history_deep() {
    {
        let mut q = FixedSizeQueue::<Tracked, 3>::new();
        queue_history::<_, 3, 6>(&mut q);
        q.push(Tracked::new(1));
    }
    assert_all_dropped();
    canaries();
});

proof!(9, fn c16_owning_queue_history() {
    {
        let mut q = Queue::<Tracked>::new(2);
        queue_history::<_, 2, 4>(&mut q);
        q.push(Tracked::new(1));
    }
    assert_all_dropped();
    canaries();
});

/// `get(index)` (Copy payloads): index 0 is the oldest element, for every fill level and ring phase.
proof!(8, fn c16_queue_get() {
    let mut q = FixedSizeQueue::<u8, 3>::new();
    let mut m = [0u8; 3];
    let mut len = 0usize;
    let mut step = 0;
    while step < 5 {
        let x: u8 = kani::any();
        if kani::any() {
            if let Some(_) = q.push_with_overflow(x) {
                m[0] = m[1];
                m[1] = m[2];
                len -= 1;
            }
            m[len] = x;
            len += 1;
        } else if q.pop().is_some() {
            m[0] = m[1];
            m[1] = m[2];
            len -= 1;
        }
        assert!(q.len() == len);
        let mut i = 0;
        while i < 3 {
            if i < len {
                assert!(q.get(i) == m[i], "c16: queue get(i) differs from the model");
            }
            i += 1;
        }
        step += 1;
    }
    kani::cover!(len == 3, "full");
    canaries();
});
