//! C16 — fixed-capacity containers match reference models and drop every element exactly once.
//!
//! History harnesses: the real constructor, then STEPS operations each chosen by `kani::any()`
//! with symbolic arguments, compared after every step with an array-backed model; element type
//! `Tracked` proves exactly-once drop and no access after drop.

use crate::common::track::*;
use crate::common::*;
use core::mem::MaybeUninit;
use core::ptr::NonNull;
use iceoryx2_bb_container::queue::*;
use iceoryx2_bb_container::vector::*;
use iceoryx2_bb_elementary::bump_allocator::BumpAllocator;
use iceoryx2_bb_elementary_traits::relocatable_container::RelocatableContainer;
use iceoryx2_bb_memory::pool_allocator::FixedSizePoolAllocator;

// ------------------------------------------------------------------------------------------
// vectors
// ------------------------------------------------------------------------------------------

struct VecModel<const CAP: usize> {
    id: [u8; CAP],
    val: [u8; CAP],
    len: usize,
}

impl<const CAP: usize> VecModel<CAP> {
    fn new() -> Self {
        Self { id: [0; CAP], val: [0; CAP], len: 0 }
    }
    fn insert(&mut self, idx: usize, id: u8, val: u8) {
        let mut i = CAP;
        while i > 0 {
            i -= 1;
            if i > idx && i <= self.len && i < CAP {
                self.id[i] = self.id[i - 1];
                self.val[i] = self.val[i - 1];
            }
        }
        self.id[idx] = id;
        self.val[idx] = val;
        self.len += 1;
    }
    fn remove(&mut self, idx: usize) -> (u8, u8) {
        let r = (self.id[idx], self.val[idx]);
        let mut i = 0;
        while i + 1 < CAP {
            if i >= idx && i + 1 < self.len {
                self.id[i] = self.id[i + 1];
                self.val[i] = self.val[i + 1];
            }
            i += 1;
        }
        self.len -= 1;
        r
    }
}

fn vec_compare<V: Vector<Tracked>, const CAP: usize>(v: &V, m: &VecModel<CAP>) {
    assert!(v.len() == m.len, "c16: vector length differs from the model");
    assert!(live() == m.len, "c16: number of live elements differs from the vector content (leak or double drop)");
    assert!(v.is_empty() == (m.len == 0));
    assert!(v.is_full() == (m.len == CAP));
    assert!(v.capacity() == CAP);
    let s = v.as_slice();
    assert!(s.len() == m.len);
    let mut i = 0;
    while i < CAP {
        if i < m.len {
            assert!(s[i].id == m.id[i], "c16: vector content differs from the model (identity)");
            assert!(s[i].val() == m.val[i], "c16: vector content differs from the model (value)");
        }
        i += 1;
    }
}

/// OPSET 0: push/pop/insert/remove   OPSET 1: push/truncate/clear/extend_from_slice/resize_with
/// (two smaller solver queries instead of one; every operation is in one of them, push in both)
fn vec_history<V: Vector<Tracked>, const CAP: usize, const STEPS: usize, const OPSET: u8>(v: &mut V) {
    let mut m = VecModel::<CAP>::new();
    let mut was_full = false;
    let mut refused = false;
    let mut step = 0;
    while step < STEPS {
        let sel: u8 = kani::any();
        kani::assume(sel < 5);
        let op: u8 = if OPSET == 0 {
            if sel >= 3 { 3 } else { sel }
        } else {
            if sel == 0 { 0 } else { sel + 3 }
        };
        let x: u8 = kani::any();
        let idx: usize = kani::any();
        kani::assume(idx <= CAP + 1);
        match op {
            0 => {
                let e = Tracked::new(x);
                let id = e.id;
                let r = v.push(e);
                if m.len < CAP {
                    assert!(r.is_ok(), "c16: push refused although there is room");
                    m.insert(m.len, id, x);
                } else {
                    assert!(r == Err(VectorModificationError::InsertWouldExceedCapacity));
                    refused = true;
                }
            }
            1 if OPSET == 0 => match v.pop() {
                Some(e) => {
                    assert!(m.len > 0);
                    let (id, val) = m.remove(m.len - 1);
                    assert!(e.id == id && e.val() == val, "c16: pop returned the wrong element");
                }
                None => assert!(m.len == 0, "c16: pop returned None on a non-empty vector"),
            },
            2 if OPSET == 0 => {
                let e = Tracked::new(x);
                let id = e.id;
                let r = v.insert(idx, e);
                if m.len == CAP {
                    assert!(r == Err(VectorModificationError::InsertWouldExceedCapacity));
                    refused = true;
                } else if idx > m.len {
                    assert!(r == Err(VectorModificationError::OutOfBounds));
                } else {
                    assert!(r.is_ok());
                    m.insert(idx, id, x);
                }
            }
            3 if OPSET == 0 => match v.remove(idx) {
                Some(e) => {
                    assert!(idx < m.len, "c16: remove succeeded out of bounds");
                    let (id, val) = m.remove(idx);
                    assert!(e.id == id && e.val() == val, "c16: remove returned the wrong element");
                }
                None => assert!(idx >= m.len, "c16: remove refused a valid index"),
            },
            4 if OPSET == 1 => {
                v.truncate(idx);
                while m.len > idx {
                    let (id, _) = m.remove(m.len - 1);
                }
            }
            5 if OPSET == 1 => {
                v.clear();
                while m.len > 0 {
                    let (id, _) = m.remove(m.len - 1);
                }
            }
            6 if OPSET == 1 => {
                // extend_from_slice clones: the new element gets a fresh id
                let src = [Tracked::new(x)];
                let first_new = next_id();
                let n = if idx >= 1 { 1 } else { 0 };
                let r = v.extend_from_slice(&src[..n]);
                if m.len + n <= CAP {
                    assert!(r.is_ok());
                    if n == 1 {
                        m.insert(m.len, first_new, x);
                    }
                } else {
                    assert!(r == Err(VectorModificationError::InsertWouldExceedCapacity));
                    assert!(next_id() == first_new, "c16: refused extend cloned elements");
                    refused = true;
                }
            }
            _ if OPSET == 0 => {}
            _ => {
                // resize_with: grows with fresh elements or truncates
                let first_new = next_id();
                let r = v.resize_with(idx, || Tracked::new(x));
                if idx > CAP {
                    assert!(r == Err(VectorModificationError::InsertWouldExceedCapacity));
                    assert!(next_id() == first_new);
                } else {
                    assert!(r.is_ok());
                    while m.len > idx {
                        let (id, _) = m.remove(m.len - 1);
                    }
                    let mut k = 0u8;
                    while m.len < idx {
                        m.insert(m.len, first_new + k, x);
                        k += 1;
                    }
                }
            }
        }
        vec_compare::<V, CAP>(v, &m);
        if m.len == CAP {
            was_full = true;
        }
        step += 1;
    }
    kani::cover!(was_full, "vector became full");
    kani::cover!(refused, "an operation beyond capacity was refused");
}

macro_rules! static_vec_h {
    ($name:ident, $cap:literal, $steps:literal, $opset:literal) => {
        proof!(9, fn $name() {
            {
                let mut v = StaticVec::<Tracked, $cap>::new();
                vec_history::<_, $cap, $steps, $opset>(&mut v);
            }
            assert_all_dropped();
            canaries();
        });
    };
}
static_vec_h!(c16_static_vec_history_a, 2, 4, 0);
static_vec_h!(c16_static_vec_history_b, 2, 3, 1);
static_vec_h!(c16_static_vec_history_deep_a, 3, 6, 0);
static_vec_h!(c16_static_vec_history_deep_b, 3, 5, 1);

#[repr(C)]
struct RelocVecBlock<const CAP: usize> {
    vec: RelocatableVec<Tracked>,
    data: [MaybeUninit<Tracked>; CAP],
}

fn reloc_vec_run<const CAP: usize, const STEPS: usize, const OPSET: u8>() {
    {
        let mut b = RelocVecBlock::<CAP> {
            vec: unsafe { RelocatableVec::new_uninit(CAP) },
            data: [const { MaybeUninit::uninit() }; CAP],
        };
        let alloc = BumpAllocator::new(
            NonNull::new(b.data.as_mut_ptr() as *mut u8).unwrap(),
            core::mem::size_of::<[MaybeUninit<Tracked>; CAP]>(),
        );
        assert!(unsafe { b.vec.init(&alloc) }.is_ok());
        vec_history::<_, CAP, STEPS, OPSET>(&mut b.vec);
    }
    assert_all_dropped();
    canaries();
}

proof!(9, fn c16_relocatable_vec_history_a() { reloc_vec_run::<2, 4, 0>(); });
proof!(9, fn c16_relocatable_vec_history_b() { reloc_vec_run::<2, 3, 1>(); });
proof!(9, fn c16_relocatable_vec_history_deep_a() { reloc_vec_run::<3, 6, 0>(); });
proof!(9, fn c16_relocatable_vec_history_deep_b() { reloc_vec_run::<3, 5, 1>(); });

fn poly_vec_run<const CAP: usize, const STEPS: usize, const OPSET: u8>() {
    let mut mem = Block::<64>::new();
    {
        let alloc = FixedSizePoolAllocator::<2>::new(
            core::alloc::Layout::from_size_align(16, 4).unwrap(),
            NonNull::new(mem.0.as_mut_ptr()).unwrap(),
            48,
        );
        {
            let mut v = PolymorphicVec::<Tracked, _>::new(&alloc, CAP).unwrap();
            vec_history::<_, CAP, STEPS, OPSET>(&mut v);
            // try_clone copies element-wise into a second bucket
            let before = live();
            let c = v.try_clone().unwrap();
            assert!(c.len() == v.len());
            assert!(live() == before + v.len(), "c16: try_clone did not clone every element exactly once");
        }
        // both buckets were given back by the drops
        let l = core::alloc::Layout::from_size_align(16, 4).unwrap();
        use iceoryx2_bb_elementary_traits::allocator::Allocate;
        assert!(alloc.allocate(l).is_ok() && alloc.allocate(l).is_ok(), "c16: PolymorphicVec leaked its memory");
    }
    assert_all_dropped();
    canaries();
}

proof!(9, fn c16_polymorphic_vec_history_a() { poly_vec_run::<2, 3, 0>(); });
proof!(9, fn c16_polymorphic_vec_history_b() { poly_vec_run::<2, 2, 1>(); });
proof!(9, fn c16_polymorphic_vec_history_deep_a() { poly_vec_run::<3, 5, 0>(); });
proof!(9, fn c16_polymorphic_vec_history_deep_b() { poly_vec_run::<3, 4, 1>(); });

// ------------------------------------------------------------------------------------------
// queues (incl. overflowing push)
// ------------------------------------------------------------------------------------------

trait QLike {
    fn q_push(&mut self, v: Tracked) -> bool;
    fn q_pop(&mut self) -> Option<Tracked>;
    fn q_push_overflow(&mut self, v: Tracked) -> Option<Tracked>;
    fn q_peek(&self) -> Option<&Tracked>;
    fn q_clear(&mut self);
    fn q_len(&self) -> usize;
    fn q_is_empty(&self) -> bool;
    fn q_is_full(&self) -> bool;
    fn q_capacity(&self) -> usize;
}

impl QLike for Queue<Tracked> {
    fn q_push(&mut self, v: Tracked) -> bool { self.push(v) }
    fn q_pop(&mut self) -> Option<Tracked> { self.pop() }
    fn q_push_overflow(&mut self, v: Tracked) -> Option<Tracked> { self.push_with_overflow(v) }
    fn q_peek(&self) -> Option<&Tracked> { self.peek() }
    fn q_clear(&mut self) { self.clear() }
    fn q_len(&self) -> usize { self.len() }
    fn q_is_empty(&self) -> bool { self.is_empty() }
    fn q_is_full(&self) -> bool { self.is_full() }
    fn q_capacity(&self) -> usize { self.capacity() }
}

impl<const C: usize> QLike for FixedSizeQueue<Tracked, C> {
    fn q_push(&mut self, v: Tracked) -> bool { self.push(v) }
    fn q_pop(&mut self) -> Option<Tracked> { self.pop() }
    fn q_push_overflow(&mut self, v: Tracked) -> Option<Tracked> { self.push_with_overflow(v) }
    fn q_peek(&self) -> Option<&Tracked> { self.peek() }
    fn q_clear(&mut self) { self.clear() }
    fn q_len(&self) -> usize { self.len() }
    fn q_is_empty(&self) -> bool { self.is_empty() }
    fn q_is_full(&self) -> bool { self.is_full() }
    fn q_capacity(&self) -> usize { self.capacity() }
}

fn queue_history<Q: QLike, const CAP: usize, const STEPS: usize>(q: &mut Q) {
    let mut m = VecModel::<CAP>::new(); // index 0 = oldest
    let mut evicted = false;
    let mut wrapped = 0usize;
    let mut step = 0;
    while step < STEPS {
        let op: u8 = kani::any();
        let x: u8 = kani::any();
        match op {
            0 => {
                let e = Tracked::new(x);
                let id = e.id;
                let r = q.q_push(e);
                if m.len < CAP {
                    assert!(r, "c16: queue push refused although there is room");
                    m.insert(m.len, id, x);
                    wrapped += 1;
                } else {
                    assert!(!r, "c16: queue push beyond capacity accepted");
                }
            }
            1 => match q.q_pop() {
                Some(e) => {
                    assert!(m.len > 0);
                    let (id, val) = m.remove(0);
                    assert!(e.id == id && e.val() == val, "c16: queue pop is not FIFO");
                }
                None => assert!(m.len == 0),
            },
            2 => {
                let e = Tracked::new(x);
                let id = e.id;
                let r = q.q_push_overflow(e);
                if m.len == CAP {
                    let (oid, oval) = m.remove(0);
                    match r {
                        Some(o) => assert!(o.id == oid && o.val() == oval, "c16: overflow did not evict the oldest"),
                        None => assert!(false, "c16: overflowing push on a full queue returned nothing"),
                    }
                    evicted = true;
                } else {
                    assert!(r.is_none(), "c16: overflowing push evicted although there was room");
                }
                m.insert(m.len, id, x);
                wrapped += 1;
            }
            3 => {
                q.q_clear();
                while m.len > 0 {
                    let (id, _) = m.remove(0);
                }
            }
            _ => match q.q_peek() {
                Some(e) => assert!(m.len > 0 && e.id == m.id[0] && e.val() == m.val[0]),
                None => assert!(m.len == 0),
            },
        }
        assert!(q.q_len() == m.len);
        assert!(live() == m.len, "c16: number of live elements differs from the queue content (leak or double drop)");
        assert!(q.q_is_empty() == (m.len == 0));
        assert!(q.q_is_full() == (m.len == CAP));
        assert!(q.q_capacity() == CAP);
        step += 1;
    }
    // drain: the remaining content is exactly the model, oldest first
    while let Some(e) = q.q_pop() {
        assert!(m.len > 0);
        let (id, val) = m.remove(0);
        assert!(e.id == id && e.val() == val, "c16: final queue content differs from the model");
    }
    assert!(m.len == 0);
    kani::cover!(evicted, "overflowing push evicted the oldest element");
    kani::cover!(wrapped > CAP, "ring index wrapped around");
}

proof!(9, fn c16_fixed_size_queue_history() {
    {
        let mut q = FixedSizeQueue::<Tracked, 2>::new();
        queue_history::<_, 2, 4>(&mut q);
        // leave something inside for Drop
        q.push(Tracked::new(1));
    }
    assert_all_dropped();
    canaries();
});

proof!(9, fn c16_fixed_size_queue_history_deep() {
    {
        let mut q = FixedSizeQueue::<Tracked, 3>::new();
        queue_history::<_, 3, 6>(&mut q);
        q.push(Tracked::new(1));
    }
    assert_all_dropped();
    canaries();
});

proof!(9, fn c16_owning_queue_history() {
    {
        let mut q = Queue::<Tracked>::new(2);
        queue_history::<_, 2, 4>(&mut q);
        q.push(Tracked::new(1));
    }
    assert_all_dropped();
    canaries();
});

/// `get(index)` (Copy payloads): index 0 is the oldest element, for every fill level and ring phase.
proof!(8, fn c16_queue_get() {
    let mut q = FixedSizeQueue::<u8, 3>::new();
    let mut m = [0u8; 3];
    let mut len = 0usize;
    let mut step = 0;
    while step < 5 {
        let x: u8 = kani::any();
        if kani::any() {
            if let Some(_) = q.push_with_overflow(x) {
                m[0] = m[1];
                m[1] = m[2];
                len -= 1;
            }
            m[len] = x;
            len += 1;
        } else if q.pop().is_some() {
            m[0] = m[1];
            m[1] = m[2];
            len -= 1;
        }
        assert!(q.len() == len);
        let mut i = 0;
        while i < 3 {
            if i < len {
                assert!(q.get(i) == m[i], "c16: queue get(i) differs from the model");
            }
            i += 1;
        }
        step += 1;
    }
    kani::cover!(len == 3, "full");
    canaries();
});

// ------------------------------------------------------------------------------------------
// slot map
// ------------------------------------------------------------------------------------------

use iceoryx2_bb_container::flatmap::*;
use iceoryx2_bb_container::slotmap::*;

trait SlotLike {
    fn s_insert(&mut self, v: Tracked) -> Option<SlotMapKey>;
    fn s_insert_at(&mut self, k: SlotMapKey, v: Tracked) -> bool;
    fn s_remove(&mut self, k: SlotMapKey) -> Option<Tracked>;
    fn s_get(&self, k: SlotMapKey) -> Option<&Tracked>;
    fn s_contains(&self, k: SlotMapKey) -> bool;
    fn s_next_free(&self) -> Option<SlotMapKey>;
    fn s_len(&self) -> usize;
    fn s_is_empty(&self) -> bool;
    fn s_is_full(&self) -> bool;
    fn s_capacity(&self) -> usize;
    /// folds the iteration (key order, ids) into a number
    fn s_iter_sig(&self) -> u64;
}

macro_rules! slot_like {
    ($t:ty) => {
        impl SlotLike for $t {
            fn s_insert(&mut self, v: Tracked) -> Option<SlotMapKey> { self.insert(v) }
            fn s_insert_at(&mut self, k: SlotMapKey, v: Tracked) -> bool { self.insert_at(k, v) }
            fn s_remove(&mut self, k: SlotMapKey) -> Option<Tracked> { self.remove(k) }
            fn s_get(&self, k: SlotMapKey) -> Option<&Tracked> { self.get(k) }
            fn s_contains(&self, k: SlotMapKey) -> bool { self.contains(k) }
            fn s_next_free(&self) -> Option<SlotMapKey> { self.next_free_key() }
            fn s_len(&self) -> usize { self.len() }
            fn s_is_empty(&self) -> bool { self.is_empty() }
            fn s_is_full(&self) -> bool { self.is_full() }
            fn s_capacity(&self) -> usize { self.capacity() }
            fn s_iter_sig(&self) -> u64 {
                let mut acc = 0u64;
                let mut last: i64 = -1;
                for (k, v) in self.iter() {
                    assert!((k.value() as i64) > last, "c16: slot map iteration not in ascending key order");
                    last = k.value() as i64;
                    acc |= ((v.id as u64) + 1) << (8 * k.value());
                }
                acc
            }
        }
    };
}
slot_like!(SlotMap<Tracked>);
slot_like!(FixedSizeSlotMap<Tracked, 2>);

fn slotmap_history<S: SlotLike, const CAP: usize, const STEPS: usize>(s: &mut S) {
    // model: id/val per key, id 0 = empty
    let mut mid = [0u8; CAP];
    let mut mval = [0u8; CAP];
    let mut was_full = false;
    let mut overwrote = false;
    let mut claimed_head = false;
    let mut step = 0;
    while step < STEPS {
        let op: u8 = kani::any();
        let x: u8 = kani::any();
        let key: usize = kani::any();
        kani::assume(key <= CAP);
        let mut mlen = 0;
        let mut i = 0;
        while i < CAP {
            if mid[i] != 0 {
                mlen += 1;
            }
            i += 1;
        }
        match op {
            0 => {
                let nf = s.s_next_free();
                let e = Tracked::new(x);
                let id = e.id;
                match s.s_insert(e) {
                    Some(k) => {
                        assert!(k.value() < CAP, "c16: slot map key outside the capacity");
                        assert!(mid[k.value()] == 0, "c16: insert() overwrote a live entry");
                        assert!(nf == Some(k), "c16: insert() did not use next_free_key()");
                        mid[k.value()] = id;
                        mval[k.value()] = x;
                    }
                    None => {
                        assert!(mlen == CAP, "c16: slot map insert refused although not full");
                        assert!(nf.is_none());
                    }
                }
            }
            1 => {
                let nf = s.s_next_free();
                let e = Tracked::new(x);
                let id = e.id;
                let r = s.s_insert_at(SlotMapKey::new(key), e);
                if key < CAP {
                    assert!(r, "c16: insert_at refused a valid key");
                    if mid[key] != 0 {
                        overwrote = true;
                    }
                    if nf == Some(SlotMapKey::new(key)) {
                        claimed_head = true;
                    }
                    mid[key] = id;
                    mval[key] = x;
                } else {
                    assert!(!r, "c16: insert_at accepted an out-of-bounds key");
                }
            }
            2 => match s.s_remove(SlotMapKey::new(key)) {
                Some(e) => {
                    assert!(key < CAP && mid[key] != 0, "c16: remove returned a value for an empty key");
                    assert!(e.id == mid[key] && e.val() == mval[key], "c16: remove returned the wrong element");
                    mid[key] = 0;
                }
                None => assert!(key >= CAP || mid[key] == 0, "c16: remove refused a live key"),
            },
            _ => {
                match s.s_get(SlotMapKey::new(key)) {
                    Some(e) => {
                        assert!(key < CAP && mid[key] != 0);
                        assert!(e.id == mid[key] && e.val() == mval[key], "c16: get returned the wrong element");
                    }
                    None => assert!(key >= CAP || mid[key] == 0, "c16: get misses a live key"),
                }
                assert!(s.s_contains(SlotMapKey::new(key)) == (key < CAP && mid[key] != 0));
            }
        }
        let mut mlen = 0;
        let mut sig = 0u64;
        let mut i = 0;
        while i < CAP {
            if mid[i] != 0 {
                mlen += 1;
                sig |= ((mid[i] as u64) + 1) << (8 * i);
            }
            i += 1;
        }
        assert!(s.s_len() == mlen, "c16: slot map length differs from the model");
        assert!(live() == mlen, "c16: number of live elements differs from the slot map content (leak or double drop)");
        assert!(s.s_is_empty() == (mlen == 0));
        assert!(s.s_is_full() == (mlen == CAP));
        assert!(s.s_capacity() == CAP);
        assert!(s.s_iter_sig() == sig, "c16: slot map iteration differs from the model");
        match s.s_next_free() {
            Some(k) => assert!(k.value() < CAP && mid[k.value()] == 0, "c16: next_free_key is not free"),
            None => assert!(mlen == CAP, "c16: no free key although the map is not full"),
        }
        if mlen == CAP {
            was_full = true;
        }
        step += 1;
    }
    kani::cover!(was_full, "slot map became full");
    kani::cover!(overwrote, "insert_at overwrote a live entry");
    kani::cover!(claimed_head && was_full, "insert_at claimed the free-list head and the map filled up later");
}

proof!(9, fn c16_fixed_slotmap_history() {
    {
        let mut s = FixedSizeSlotMap::<Tracked, 2>::new();
        slotmap_history::<_, 2, 3>(&mut s);
    }
    assert_all_dropped();
    canaries();
});
proof!(9, fn c16_owning_slotmap_history() {
    {
        let mut s = SlotMap::<Tracked>::new(2);
        slotmap_history::<_, 2, 3>(&mut s);
    }
    assert_all_dropped();
    canaries();
});
proof!(9, fn c16_owning_slotmap_history_deep() {
    {
        let mut s = SlotMap::<Tracked>::new(2);
        slotmap_history::<_, 2, 5>(&mut s);
    }
    assert_all_dropped();
    canaries();
});

// ------------------------------------------------------------------------------------------
// flat map
// ------------------------------------------------------------------------------------------

trait FlatLike {
    fn f_insert(&mut self, k: u8, v: Tracked) -> Result<(), FlatMapError>;
    fn f_remove(&mut self, k: &u8) -> Option<Tracked>;
    fn f_get(&self, k: &u8) -> Option<Tracked>;
    fn f_get_ref(&self, k: &u8) -> Option<&Tracked>;
    fn f_contains(&self, k: &u8) -> bool;
    fn f_len(&self) -> usize;
    fn f_is_empty(&self) -> bool;
    fn f_is_full(&self) -> bool;
    fn f_keys(&self) -> (u8, usize);
}
macro_rules! flat_like {
    ($t:ty) => {
        impl FlatLike for $t {
            fn f_insert(&mut self, k: u8, v: Tracked) -> Result<(), FlatMapError> { self.insert(k, v) }
            fn f_remove(&mut self, k: &u8) -> Option<Tracked> { self.remove(k) }
            fn f_get(&self, k: &u8) -> Option<Tracked> { self.get(k) }
            fn f_get_ref(&self, k: &u8) -> Option<&Tracked> { self.get_ref(k) }
            fn f_contains(&self, k: &u8) -> bool { self.contains(k) }
            fn f_len(&self) -> usize { self.len() }
            fn f_is_empty(&self) -> bool { self.is_empty() }
            fn f_is_full(&self) -> bool { self.is_full() }
            fn f_keys(&self) -> (u8, usize) {
                let mut listed = 0u8;
                let mut n = 0;
                self.list_keys(|k| {
                    listed |= 1 << *k;
                    n += 1;
                    iceoryx2_bb_elementary::CallbackProgression::Continue
                });
                (listed, n)
            }
        }
    };
}
flat_like!(FlatMap<u8, Tracked>);
flat_like!(FixedSizeFlatMap<u8, Tracked, 2>);

fn flatmap_history<M: FlatLike, const STEPS: usize>(m: &mut M) {
    const CAP: usize = 2;
    // model: up to CAP (key, id, val) entries, id 0 = unused
    let mut mk = [0u8; CAP];
    let mut mid = [0u8; CAP];
    let mut mval = [0u8; CAP];
    let mut dup = false;
    let mut full = false;
    let mut step = 0;
    while step < STEPS {
        let op: u8 = kani::any();
        let key: u8 = kani::any();
        kani::assume(key < 3);
        let x: u8 = kani::any();
        let mut pos = CAP; // position of `key` in the model
        let mut free = CAP;
        let mut mlen = 0;
        let mut i = 0;
        while i < CAP {
            if mid[i] != 0 {
                mlen += 1;
                if mk[i] == key {
                    pos = i;
                }
            } else if free == CAP {
                free = i;
            }
            i += 1;
        }
        match op {
            0 => {
                let e = Tracked::new(x);
                let id = e.id;
                match m.f_insert(key, e) {
                    Ok(()) => {
                        assert!(pos == CAP, "c16: flat map accepted a duplicate key");
                        assert!(free < CAP, "c16: flat map accepted an insert beyond its capacity");
                        mk[free] = key;
                        mid[free] = id;
                        mval[free] = x;
                    }
                    Err(FlatMapError::KeyAlreadyExists) => {
                        assert!(pos < CAP, "c16: KeyAlreadyExists for a new key");
                        dup = true;
                    }
                    Err(FlatMapError::IsFull) => {
                        assert!(pos == CAP && mlen == CAP, "c16: IsFull although there is room");
                        full = true;
                    }
                }
            }
            1 => match m.f_remove(&key) {
                Some(e) => {
                    assert!(pos < CAP, "c16: flat map removed a key it does not hold");
                    assert!(e.id == mid[pos] && e.val() == mval[pos], "c16: flat map remove returned the wrong value");
                    mid[pos] = 0;
                }
                None => assert!(pos == CAP, "c16: flat map remove missed a key"),
            },
            2 => match m.f_get(&key) {
                // get clones: fresh id, same value
                Some(e) => assert!(pos < CAP && e.val() == mval[pos] && e.id != mid[pos]),
                None => assert!(pos == CAP),
            },
            _ => {
                match m.f_get_ref(&key) {
                    Some(e) => assert!(pos < CAP && e.id == mid[pos] && e.val() == mval[pos]),
                    None => assert!(pos == CAP),
                }
                assert!(m.f_contains(&key) == (pos < CAP));
            }
        }
        let mut mlen = 0;
        let mut keyset = 0u8;
        let mut i = 0;
        while i < CAP {
            if mid[i] != 0 {
                mlen += 1;
                keyset |= 1 << mk[i];
            }
            i += 1;
        }
        assert!(m.f_len() == mlen, "c16: flat map length differs from the model");
        assert!(live() == mlen, "c16: number of live elements differs from the flat map content (leak or double drop)");
        assert!(m.f_is_empty() == (mlen == 0));
        assert!(m.f_is_full() == (mlen == CAP));
        let (listed, n) = m.f_keys();
        assert!(listed == keyset && n == mlen, "c16: flat map list_keys differs from the model");
        step += 1;
    }
    kani::cover!(dup, "duplicate key refused");
    kani::cover!(full, "insert into a full flat map refused");
}

proof!(9, fn c16_flatmap_history() {
    {
        let mut m = FlatMap::<u8, Tracked>::new(2);
        flatmap_history::<_, 3>(&mut m);
    }
    assert_all_dropped();
    canaries();
});
proof!(9, fn c16_flatmap_history_deep() {
    {
        let mut m = FlatMap::<u8, Tracked>::new(2);
        flatmap_history::<_, 5>(&mut m);
    }
    assert_all_dropped();
    canaries();
});

// ------------------------------------------------------------------------------------------
// strings (byte-level editing over the full byte range)
// ------------------------------------------------------------------------------------------

use iceoryx2_bb_container::string::{StaticString, String as IoxString, StringModificationError};

#[derive(Clone, Copy)]
struct SModel<const CAP: usize> {
    b: [u8; CAP],
    n: usize,
}

impl<const CAP: usize> SModel<CAP> {
    fn insert(&mut self, idx: usize, c: u8) {
        let mut i = CAP;
        while i > 1 {
            i -= 1;
            if i > idx && i <= self.n {
                self.b[i] = self.b[i - 1];
            }
        }
        self.b[idx] = c;
        self.n += 1;
    }
    fn remove(&mut self, idx: usize) -> u8 {
        let r = self.b[idx];
        let mut i = 0;
        while i + 1 < CAP {
            if i >= idx && i + 1 < self.n {
                self.b[i] = self.b[i + 1];
            }
            i += 1;
        }
        self.n -= 1;
        r
    }
}

fn string_compare<const CAP: usize>(s: &StaticString<CAP>, m: &SModel<CAP>) {
    assert!(s.len() == m.n, "c16: string length differs from the model");
    assert!(s.is_empty() == (m.n == 0));
    assert!(s.is_full() == (m.n == CAP));
    let b = s.as_bytes();
    assert!(b.len() == m.n);
    let mut i = 0;
    while i < CAP {
        if i < m.n {
            assert!(b[i] == m.b[i], "c16: string content differs from the model");
        }
        i += 1;
    }
    // always NUL terminated
    assert!(s.as_bytes_with_nul()[m.n] == 0, "c16: string lost its NUL terminator");
}

fn valid_char(c: u8) -> bool {
    c != 0 && c < 128
}

fn string_history<const CAP: usize, const STEPS: usize, const OPSET: u8>() {
    let mut s = StaticString::<CAP>::new();
    let mut m = SModel::<CAP> { b: [0; CAP], n: 0 };
    let mut refused_full = false;
    let mut refused_char = false;
    let mut step = 0;
    while step < STEPS {
        let sel: u8 = kani::any();
        kani::assume(sel < 4);
        let c: u8 = kani::any();
        let d: u8 = kani::any();
        let idx: usize = kani::any();
        kani::assume(idx <= CAP + 1);
        let len: usize = kani::any();
        kani::assume(len <= CAP + 1);
        let op = sel + 4 * OPSET;
        match op {
            // ---- OPSET 0: growing operations
            0 => {
                let r = s.push(c);
                if m.n == CAP {
                    assert!(r == Err(StringModificationError::InsertWouldExceedCapacity));
                    refused_full = true;
                } else if !valid_char(c) {
                    assert!(r == Err(StringModificationError::InvalidCharacter), "c16: invalid byte accepted");
                    refused_char = true;
                } else {
                    assert!(r.is_ok());
                    m.insert(m.n, c);
                }
            }
            1 => {
                kani::assume(idx <= m.n); // documented precondition (panics otherwise)
                let r = s.insert(idx, c);
                if m.n == CAP {
                    assert!(r == Err(StringModificationError::InsertWouldExceedCapacity));
                    refused_full = true;
                } else if !valid_char(c) {
                    assert!(r == Err(StringModificationError::InvalidCharacter));
                    refused_char = true;
                } else {
                    assert!(r.is_ok());
                    m.insert(idx, c);
                }
            }
            2 => {
                kani::assume(idx <= m.n);
                let r = s.insert_bytes(idx, &[c, d]);
                if m.n + 2 > CAP {
                    assert!(r == Err(StringModificationError::InsertWouldExceedCapacity));
                    refused_full = true;
                } else if !valid_char(c) || !valid_char(d) {
                    assert!(r == Err(StringModificationError::InvalidCharacter));
                    refused_char = true;
                } else {
                    assert!(r.is_ok());
                    m.insert(idx, d);
                    m.insert(idx, c);
                }
            }
            3 => match s.pop() {
                Some(x) => {
                    assert!(m.n > 0);
                    assert!(x == m.remove(m.n - 1), "c16: string pop returned the wrong byte");
                }
                None => assert!(m.n == 0),
            },
            // ---- OPSET 1: push + shrinking / searching operations
            4 => {
                let r = s.push(c);
                if m.n < CAP && valid_char(c) {
                    assert!(r.is_ok());
                    m.insert(m.n, c);
                } else {
                    assert!(r.is_err());
                }
            }
            5 => match s.remove(idx) {
                Some(x) => {
                    assert!(idx < m.n, "c16: string remove succeeded out of bounds");
                    assert!(x == m.remove(idx), "c16: string remove returned the wrong byte");
                }
                None => assert!(idx >= m.n, "c16: string remove refused a valid index"),
            },
            6 => {
                let r = s.remove_range(idx, len);
                if idx + len <= m.n {
                    assert!(r, "c16: remove_range refused a valid range");
                    let mut k = 0;
                    while k < CAP + 1 {
                        if k < len {
                            m.remove(idx);
                        }
                        k += 1;
                    }
                } else {
                    assert!(!r, "c16: remove_range accepted an invalid range");
                }
            }
            _ => {
                // find / rfind / truncate / strip
                let mut first: Option<usize> = None;
                let mut last: Option<usize> = None;
                let mut i = 0;
                while i < CAP {
                    if i < m.n && m.b[i] == c {
                        if first.is_none() {
                            first = Some(i);
                        }
                        last = Some(i);
                    }
                    i += 1;
                }
                assert!(s.find(&[c]) == first, "c16: string find differs from the model");
                assert!(s.rfind(&[c]) == last, "c16: string rfind differs from the model");
                if d & 1 == 0 {
                    s.truncate(idx);
                    if idx < m.n {
                        m.n = idx;
                    }
                } else if d & 2 == 0 {
                    let r = s.strip_prefix(&[c]);
                    assert!(r == (m.n > 0 && m.b[0] == c), "c16: strip_prefix differs from the model");
                    if r {
                        m.remove(0);
                    }
                } else {
                    let r = s.strip_suffix(&[c]);
                    assert!(r == (m.n > 0 && m.b[m.n - 1] == c), "c16: strip_suffix differs from the model");
                    if r {
                        m.n -= 1;
                    }
                }
            }
        }
        string_compare(&s, &m);
        step += 1;
    }
    if OPSET == 0 {
        kani::cover!(refused_full, "insert into a full string refused");
        kani::cover!(refused_char, "invalid byte refused");
    } else {
        kani::cover!(m.n == CAP, "string is full at the end");
    }
}

proof!(9, fn c16_string_history_grow() { string_history::<3, 4, 0>(); canaries(); });
proof!(9, fn c16_string_history_shrink() { string_history::<3, 4, 1>(); canaries(); });
proof!(9, fn c16_string_history_grow_deep() { string_history::<3, 6, 0>(); canaries(); });
proof!(9, fn c16_string_history_shrink_deep() { string_history::<3, 6, 1>(); canaries(); });

/// retain / clear on an arbitrary string of length <= 3
proof!(9, fn c16_string_retain_clear() {
    let b: [u8; 3] = kani::any();
    let n: usize = kani::any();
    kani::assume(n <= 3);
    let mut s = match StaticString::<3>::from_bytes(&b[..n]) {
        Ok(s) => s,
        Err(_) => return,
    };
    let c: u8 = kani::any();
    let mut m = SModel::<3> { b, n };
    s.retain(|x| x == c);
    let mut k = 3;
    while k > 0 {
        k -= 1;
        if k < m.n && m.b[k] == c {
            m.remove(k);
        }
    }
    string_compare(&s, &m);
    kani::cover!(m.n == 1 && n == 3, "retain removed two bytes");
    s.clear();
    assert!(s.len() == 0 && s.as_bytes_with_nul()[0] == 0);
    canaries();
});

/// find / rfind with multi-byte needles against a naive search model
proof!(9, fn c16_string_find_model() {
    let hb: [u8; 4] = kani::any();
    let hn: usize = kani::any();
    kani::assume(hn <= 4);
    let nb: [u8; 3] = kani::any();
    let nn: usize = kani::any();
    kani::assume(nn >= 1 && nn <= 3);
    // a two letter alphabet is enough to build every overlap pattern
    let mut i = 0;
    while i < 4 {
        kani::assume(hb[i] == b'a' || hb[i] == b'b');
        if i < 3 {
            kani::assume(nb[i] == b'a' || nb[i] == b'b');
        }
        i += 1;
    }
    let s = StaticString::<4>::from_bytes(&hb[..hn]).unwrap();
    let mut first: Option<usize> = None;
    let mut last: Option<usize> = None;
    let mut pos = 0;
    while pos < 4 {
        if pos + nn <= hn {
            let mut m = true;
            let mut k = 0;
            while k < 3 {
                if k < nn && hb[pos + k] != nb[k] {
                    m = false;
                }
                k += 1;
            }
            if m {
                if first.is_none() {
                    first = Some(pos);
                }
                last = Some(pos);
            }
        }
        pos += 1;
    }
    assert!(s.find(&nb[..nn]) == first, "c16: find differs from a naive search");
    assert!(s.rfind(&nb[..nn]) == last, "c16: rfind differs from a naive search");
    kani::cover!(nn == 3 && first == Some(1), "three byte needle found at offset 1");
    kani::cover!(first.is_some() && first != last, "needle occurs twice");
    canaries();
});

proof!(9, fn c16_fixed_flatmap_history() {
    {
        let mut m = FixedSizeFlatMap::<u8, Tracked, 2>::new();
        flatmap_history::<_, 3>(&mut m);
    }
    assert_all_dropped();
    canaries();
});
