//! c19 harnesses
