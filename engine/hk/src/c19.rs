//! C19 — names are accepted exactly when they satisfy the documented rules, round-trip unchanged,
//! and stay valid under every editing operation.
//!
//! Specification predicates below are written from the documentation of the `semantic_string!`
//! types (not by calling the implementation's own predicates): the string layer only supports
//! code points < 128 and no NUL, each type forbids a set of bytes and a set of contents.

use crate::common::*;
use iceoryx2_bb_container::semantic_string::*;
use iceoryx2_bb_system_types::base64url::Base64Url;
use iceoryx2_bb_system_types::file_name::{FileName, RestrictedFileName};
use iceoryx2_bb_system_types::file_path::FilePath;
use iceoryx2_bb_system_types::group_name::GroupName;
use iceoryx2_bb_system_types::path::Path;
use iceoryx2_bb_system_types::user_name::UserName;

const MAXB: usize = 6;

#[derive(Clone, Copy)]
struct Bytes {
    b: [u8; MAXB],
    n: usize,
}

impl Bytes {
    fn any(maxn: usize) -> Self {
        let b: [u8; MAXB] = kani::any();
        let n: usize = kani::any();
        kani::assume(n <= maxn);
        Bytes { b, n }
    }
    fn s(&self) -> &[u8] {
        &self.b[..self.n]
    }
    fn eq_slice(&self, o: &[u8]) -> bool {
        if o.len() != self.n {
            return false;
        }
        let mut i = 0;
        let mut r = true;
        while i < MAXB {
            if i < self.n && o[i] != self.b[i] {
                r = false;
            }
            i += 1;
        }
        r
    }
    fn insert(&mut self, idx: usize, c: u8) {
        let mut i = MAXB - 1;
        while i > 0 {
            if i > idx && i <= self.n {
                self.b[i] = self.b[i - 1];
            }
            i -= 1;
        }
        self.b[idx] = c;
        self.n += 1;
    }
    fn remove(&mut self, idx: usize) -> u8 {
        let r = self.b[idx];
        let mut i = 0;
        while i + 1 < MAXB {
            if i >= idx && i + 1 < self.n {
                self.b[i] = self.b[i + 1];
            }
            i += 1;
        }
        self.n -= 1;
        r
    }
}

// ---- specification predicates --------------------------------------------------------------

fn ascii_no_nul(c: u8) -> bool {
    c >= 1 && c < 128
}

fn forbidden_in_file_name(c: u8) -> bool {
    c <= 31 || c == b'/' || c == b'\\' || c == b'<' || c == b'>' || c == b'"' || c == b'|' || c == b'?' || c == b'*'
}

fn forbidden_in_path(c: u8) -> bool {
    c <= 31 || c == b'<' || c == b'>' || c == b'"' || c == b'|' || c == b'?' || c == b'*'
}

fn all(v: &Bytes, f: fn(u8) -> bool) -> bool {
    let mut i = 0;
    let mut r = true;
    while i < MAXB {
        if i < v.n && !f(v.b[i]) {
            r = false;
        }
        i += 1;
    }
    r
}

fn is_dot_or_dotdot_or_empty(v: &Bytes) -> bool {
    v.n == 0 || (v.n == 1 && v.b[0] == b'.') || (v.n == 2 && v.b[0] == b'.' && v.b[1] == b'.')
}

fn spec_file_name(v: &Bytes) -> bool {
    all(v, |c| ascii_no_nul(c) && !forbidden_in_file_name(c)) && !is_dot_or_dotdot_or_empty(v)
}

fn spec_path(v: &Bytes) -> bool {
    all(v, |c| ascii_no_nul(c) && !forbidden_in_path(c))
}

fn spec_file_path(v: &Bytes) -> bool {
    if !all(v, |c| ascii_no_nul(c) && !forbidden_in_path(c)) || is_dot_or_dotdot_or_empty(v) {
        return false;
    }
    let n = v.n;
    if v.b[n - 1] == b'/' {
        return false;
    }
    if n >= 2 && v.b[n - 2] == b'/' && v.b[n - 1] == b'.' {
        return false;
    }
    if n >= 3 && v.b[n - 3] == b'/' && v.b[n - 2] == b'.' && v.b[n - 1] == b'.' {
        return false;
    }
    true
}

fn name_char(c: u8) -> bool {
    (c >= b'a' && c <= b'z') || (c >= b'A' && c <= b'Z') || (c >= b'0' && c <= b'9') || c == b'-' || c == b'_'
}

fn spec_user_name(v: &Bytes) -> bool {
    all(v, name_char) && v.n > 0 && !(v.b[0] == b'-' || (v.b[0] >= b'0' && v.b[0] <= b'9'))
}

fn spec_base64url(v: &Bytes) -> bool {
    all(v, name_char) && v.n > 0
}

// ---- generic obligations -------------------------------------------------------------------

/// accept-iff-spec and round trip
fn check_new<const CAP: usize, S: SemanticString<CAP>>(maxn: usize, spec: fn(&Bytes) -> bool) -> bool {
    let v = Bytes::any(maxn);
    let r = S::new(v.s());
    let ok = spec(&v) && v.n <= CAP;
    assert!(r.is_ok() == ok, "c19: acceptance differs from the documented rules");
    match r {
        Ok(s) => {
            assert!(s.len() == v.n, "c19: accepted name does not round-trip (length)");
            assert!(v.eq_slice(s.as_bytes()), "c19: accepted name does not round-trip (bytes)");
            true
        }
        Err(e) => {
            if v.n > CAP && all(&v, ascii_no_nul) {
                assert!(e == SemanticStringError::ExceedsMaximumLength);
            }
            false
        }
    }
}

/// one symbolic editing operation on an arbitrary accepted value: either refused without change,
/// or the result equals the model result and is itself acceptable
fn check_edit<const CAP: usize, S: SemanticString<CAP>, const G: u8>(maxn: usize, spec: fn(&Bytes) -> bool) {
    let v = Bytes::any(maxn);
    let mut s = match S::new(v.s()) {
        Ok(s) => s,
        Err(_) => return,
    };
    let mut m = v;
    // operation group G (compile time) keeps each solver query small:
    // 0: insert/push   1: remove, pop, truncate   2: remove_range, strip_prefix, strip_suffix   3: retain
    let sel: u8 = kani::any();
    let op: u8 = match G {
        0 => 0,
        1 => {
            if sel == 0 { 1 } else if sel == 1 { 2 } else { 3 }
        }
        2 => {
            if sel == 0 { 4 } else if sel == 1 { 5 } else { 6 }
        }
        _ => 7,
    };
    let c: u8 = kani::any();
    let idx: usize = kani::any();
    kani::assume(idx <= MAXB);
    let len: usize = kani::any();
    kani::assume(len <= MAXB);
    let mut changed = false;
    match op {
        0 if G == 0 => {
            // insert (push is insert at len)
            kani::assume(idx <= m.n && m.n < MAXB);
            let r = s.insert(idx, c);
            let mut t = m;
            t.insert(idx, c);
            if spec(&t) && t.n <= CAP {
                assert!(r.is_ok(), "c19: valid insert refused");
                m = t;
                changed = true;
            } else {
                assert!(r.is_err(), "c19: insert produced an invalid name");
            }
        }
        1 if G == 1 => {
            // remove
            let r = s.remove(idx);
            if idx < m.n {
                let mut t = m;
                let removed = t.remove(idx);
                if spec(&t) {
                    assert!(r == Ok(Some(removed)), "c19: valid remove refused or returned the wrong byte");
                    m = t;
                    changed = true;
                } else {
                    assert!(r.is_err(), "c19: remove produced an invalid name");
                }
            } else {
                assert!(r == Ok(None), "c19: remove out of bounds did not return None");
            }
        }
        2 if G == 1 => {
            // pop
            let r = s.pop();
            let mut t = m;
            if m.n == 0 {
                assert!(r == Ok(None));
                return;
            }
            let removed = t.remove(t.n - 1);
            if spec(&t) {
                assert!(r == Ok(Some(removed)));
                m = t;
                changed = true;
            } else {
                assert!(r.is_err(), "c19: pop produced an invalid name");
            }
        }
        3 if G == 1 => {
            // truncate
            let r = s.truncate(idx);
            if idx < m.n {
                let mut t = m;
                t.n = idx;
                if spec(&t) {
                    assert!(r.is_ok());
                    m = t;
                    changed = true;
                } else {
                    assert!(r.is_err(), "c19: truncate produced an invalid name");
                }
            } else {
                assert!(r.is_ok());
            }
        }
        4 if G == 2 => {
            // remove_range
            kani::assume(idx + len <= m.n);
            let r = s.remove_range(idx, len);
            let mut t = m;
            let mut k = 0;
            while k < MAXB {
                if k < len {
                    t.remove(idx);
                }
                k += 1;
            }
            if spec(&t) {
                assert!(r.is_ok());
                m = t;
                changed = len > 0;
            } else {
                assert!(r.is_err(), "c19: remove_range produced an invalid name");
            }
        }
        5 if G == 2 => {
            // strip_prefix with a one byte prefix
            let r = s.strip_prefix(&[c]);
            if m.n > 0 && m.b[0] == c {
                let mut t = m;
                t.remove(0);
                if spec(&t) {
                    assert!(r == Ok(true));
                    m = t;
                    changed = true;
                } else {
                    assert!(r.is_err(), "c19: strip_prefix produced an invalid name");
                }
            } else {
                assert!(r == Ok(false));
            }
        }
        6 if G == 2 => {
            // strip_suffix with a one byte suffix
            let r = s.strip_suffix(&[c]);
            if m.n > 0 && m.b[m.n - 1] == c {
                let mut t = m;
                t.n -= 1;
                if spec(&t) {
                    assert!(r == Ok(true));
                    m = t;
                    changed = true;
                } else {
                    assert!(r.is_err(), "c19: strip_suffix produced an invalid name");
                }
            } else {
                assert!(r == Ok(false));
            }
        }
        _ if G != 3 => {}
        _ => {
            // retain: removes every byte equal to c
            let r = s.retain(|x| x == c);
            let mut t = m;
            let mut k = MAXB;
            while k > 0 {
                k -= 1;
                if k < t.n && t.b[k] == c {
                    t.remove(k);
                }
            }
            if spec(&t) {
                assert!(r.is_ok());
                changed = t.n != m.n;
                m = t;
            } else {
                assert!(r.is_err(), "c19: retain produced an invalid name");
            }
        }
    }
    // whatever happened: the value is what the model says and is acceptable
    assert!(s.len() == m.n, "c19: edited name differs from the model (length)");
    assert!(m.eq_slice(s.as_bytes()), "c19: edited name differs from the model (bytes)");
    assert!(spec(&m), "c19: an accepted name became invalid");
    kani::cover!(changed, "an edit changed the name");
    kani::cover!(!changed, "an edit was refused or had no effect");
}

macro_rules! c19_new {
    ($new_q:ident, $new_t:ident, $cap:expr, $ty:ty, $spec:path) => {
        proof!(8, fn $new_q() {
            let acc = check_new::<{ $cap }, $ty>(3, $spec);
            kani::cover!(acc, "accepted");
            kani::cover!(!acc, "rejected");
            canaries();
        });
        proof!(8, fn $new_t() {
            let acc = check_new::<{ $cap }, $ty>(4, $spec);
            kani::cover!(acc, "accepted");
            kani::cover!(!acc, "rejected");
            canaries();
        });
    };
}

macro_rules! c19_edit {
    ($name:ident, $cap:expr, $ty:ty, $spec:path, $g:literal, $maxn:literal) => {
        proof!(8, fn $name() {
            check_edit::<{ $cap }, $ty, $g>($maxn, $spec);
            canaries();
        });
    };
}

c19_new!(c19_file_name_new, c19_file_name_new_4, 255, FileName, spec_file_name);
c19_new!(c19_path_new, c19_path_new_4, 255, Path, spec_path);
c19_new!(c19_file_path_new, c19_file_path_new_4, 255, FilePath, spec_file_path);
c19_new!(c19_user_name_new, c19_user_name_new_4, 255, UserName, spec_user_name);
c19_new!(c19_group_name_new, c19_group_name_new_4, 31, GroupName, spec_user_name);
c19_new!(c19_base64url_new, c19_base64url_new_4, 255, Base64Url, spec_base64url);
c19_new!(c19_restricted_new, c19_restricted_new_4, 2, RestrictedFileName<2>, spec_file_name);

c19_edit!(c19_file_name_edit_g0, 255, FileName, spec_file_name, 0, 2);
c19_edit!(c19_file_name_edit_g1, 255, FileName, spec_file_name, 1, 2);
c19_edit!(c19_file_name_edit_g2, 255, FileName, spec_file_name, 2, 2);
c19_edit!(c19_file_name_edit_g3, 255, FileName, spec_file_name, 3, 2);
c19_edit!(c19_file_path_edit_g0, 255, FilePath, spec_file_path, 0, 2);
c19_edit!(c19_file_path_edit_g1, 255, FilePath, spec_file_path, 1, 3);
c19_edit!(c19_file_path_edit_g2, 255, FilePath, spec_file_path, 2, 3);
c19_edit!(c19_file_path_edit_g3, 255, FilePath, spec_file_path, 3, 3);
c19_edit!(c19_path_edit_g0, 255, Path, spec_path, 0, 2);
c19_edit!(c19_path_edit_g1, 255, Path, spec_path, 1, 2);
c19_edit!(c19_path_edit_g2, 255, Path, spec_path, 2, 2);
c19_edit!(c19_path_edit_g3, 255, Path, spec_path, 3, 2);
c19_edit!(c19_restricted_edit_g0, 2, RestrictedFileName<2>, spec_file_name, 0, 2);
c19_edit!(c19_restricted_edit_g1, 2, RestrictedFileName<2>, spec_file_name, 1, 2);
c19_edit!(c19_restricted_edit_g2, 2, RestrictedFileName<2>, spec_file_name, 2, 2);
c19_edit!(c19_restricted_edit_g3, 2, RestrictedFileName<2>, spec_file_name, 3, 2);
c19_edit!(c19_user_name_edit_g0, 255, UserName, spec_user_name, 0, 2);
c19_edit!(c19_user_name_edit_g1, 255, UserName, spec_user_name, 1, 2);
c19_edit!(c19_base64url_edit_g1, 255, Base64Url, spec_base64url, 1, 2);
// thorough: longer start values
c19_edit!(c19_file_name_edit_g0_3, 255, FileName, spec_file_name, 0, 3);
c19_edit!(c19_file_name_edit_g1_3, 255, FileName, spec_file_name, 1, 3);
c19_edit!(c19_file_name_edit_g2_3, 255, FileName, spec_file_name, 2, 3);
c19_edit!(c19_file_name_edit_g3_3, 255, FileName, spec_file_name, 3, 3);

/// find / rfind on a semantic string agree with a model search (one byte needle)
proof!(8, fn c19_file_name_find_rfind() {
    let v = Bytes::any(4);
    let s = match FileName::new(v.s()) {
        Ok(s) => s,
        Err(_) => return,
    };
    let c: u8 = kani::any();
    let mut first: Option<usize> = None;
    let mut last: Option<usize> = None;
    let mut i = 0;
    while i < MAXB {
        if i < v.n && v.b[i] == c {
            if first.is_none() {
                first = Some(i);
            }
            last = Some(i);
        }
        i += 1;
    }
    assert!(s.find(&[c]) == first, "c19: find differs from the model");
    assert!(s.rfind(&[c]) == last, "c19: rfind differs from the model");
    kani::cover!(first.is_some() && first != last, "needle occurs twice");
    canaries();
});

/// FilePath::from_path_and_file / file_name() / path() round trip: the file component of the
/// composed path is the given file name and never escapes into the directory part
proof!(10, fn c19_file_path_compose() {
    let p = Bytes::any(3);
    let f = Bytes::any(2);
    let path = match Path::new(p.s()) {
        Ok(s) => s,
        Err(_) => return,
    };
    let file = match FileName::new(f.s()) {
        Ok(s) => s,
        Err(_) => return,
    };
    let fp = FilePath::from_path_and_file(&path, &file).unwrap();
    let mut m = p;
    if m.n > 0 && m.b[m.n - 1] != b'/' {
        m.insert(m.n, b'/');
    }
    assert!(fp.len() == m.n + f.n);
    let got = fp.as_bytes();
    let mut i = 0;
    while i < MAXB {
        if i < m.n {
            assert!(got[i] == m.b[i], "c19: directory part of the composed path changed");
        }
        if i < f.n {
            assert!(got[m.n + i] == f.b[i], "c19: file part of the composed path changed");
        }
        i += 1;
    }
    let back = fp.file_name();
    assert!(f.eq_slice(back.as_bytes()), "c19: file_name() of the composed path is not the file name");
    // the composed value is itself an acceptable FilePath
    assert!(FilePath::new(got).is_ok(), "c19: composed file path is not a valid FilePath");
    kani::cover!(p.n == 3 && f.n == 2, "longest composition");
    canaries();
});
