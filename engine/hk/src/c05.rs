//! c05 harnesses
