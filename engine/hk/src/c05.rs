//! C05 (bit-set level) — the event-id stores: nothing set is lost, nothing delivered was not
//! set, merging allowed (BitSet) / counted exactly (CountingBitSet).
//!
//! (K) symbolic histories vs. a set / multiset model, capacity 10 (crosses the 8-bit element
//!     boundary).  (S) notifiers setting ids racing with a draining listener.
//! The state hand-shake + trigger of `event::common` is checked in `cal::c05ev` (feature cal).

use crate::common::*;
use iceoryx2_bb_lock_free::mpmc::bit_set::FixedSizeBitSet;
use iceoryx2_bb_lock_free::mpmc::counting_bit_set::FixedSizeCountingBitSet;

/// BitSet history: set(id) / reset_next() / reset_all() vs a bit-mask model
fn bitset_history<const STEPS: usize>() {
    const CAP: usize = 10;
    let s = FixedSizeBitSet::<CAP>::new();
    assert!(s.capacity() == CAP);
    let mut m: u32 = 0;
    let mut crossed = false;
    let mut step = 0;
    while step < STEPS {
        let op: u8 = kani::any();
        let id: usize = kani::any();
        kani::assume(id < CAP);
        match op {
            0 | 1 => {
                let newly = s.set(id);
                assert!(newly == ((m >> id) & 1 == 0), "c05: set() reports the wrong 'newly set' state");
                m |= 1 << id;
                if id >= 8 {
                    crossed = true;
                }
            }
            2 => match s.reset_next() {
                Some(i) => {
                    assert!(i < CAP && (m >> i) & 1 == 1, "c05: reset_next delivered an id that was not set (phantom)");
                    m &= !(1 << i);
                }
                None => assert!(m == 0, "c05: reset_next found nothing although an id is set (lost)"),
            },
            _ => {
                let mut got: u32 = 0;
                s.reset_all(|i| {
                    assert!(i < CAP && (got >> i) & 1 == 0, "c05: reset_all delivered an id twice");
                    got |= 1 << i;
                });
                assert!(got == m, "c05: reset_all differs from the set ids (lost or phantom)");
                m = 0;
            }
        }
        step += 1;
    }
    let mut got: u32 = 0;
    s.reset_all(|i| got |= 1 << i);
    assert!(got == m, "c05: final drain differs from the model");
    kani::cover!(crossed && m != 0, "an id beyond the first 8-bit element is pending at the end");
    canaries();
}

proof!(12, fn c05_bitset_history() { bitset_history::<3>(); });
proof!(12, fn c05_bitset_history_deep() { bitset_history::<4>(); });

/// CountingBitSet history: set(id) returns the previous count, reset_all reports exact counts
proof!(8, fn c05_counting_bitset_history() {
    const CAP: usize = 3;
    let s = FixedSizeCountingBitSet::<CAP>::new();
    let mut m = [0u64; CAP];
    let mut merged = false;
    let mut step = 0;
    while step < 5 {
        let id: usize = kani::any();
        kani::assume(id < CAP);
        if kani::any() {
            let prev = s.set(id);
            assert!(prev == m[id], "c05: counting set() returned the wrong previous count");
            m[id] += 1;
            if m[id] >= 2 {
                merged = true;
            }
        } else {
            let mut got = [0u64; CAP];
            s.reset_all(|st| {
                assert!(st.bit() < CAP && got[st.bit()] == 0 && st.count() > 0);
                got[st.bit()] = st.count();
            });
            let mut i = 0;
            while i < CAP {
                assert!(got[i] == m[i], "c05: delivered count differs from the number of notifications");
                m[i] = 0;
                i += 1;
            }
        }
        step += 1;
    }
    kani::cover!(merged, "one id notified twice before a drain");
    canaries();
});

// ==========================================================================================
// engine S
// ==========================================================================================

#[cfg(feature = "sched")]
pub mod sched {
    use super::*;
    use iceoryx2_pal_concurrency_sync::verif_atomic::{verif_clear_hook, verif_set_hook};

    const MAXSET: usize = 3;
    const DRAINS: usize = 3;

    /// timestamps come from one global clock that ticks at every recorded event
    pub struct Book {
        pub clock: u32,
        pub budget: usize,
        pub in_inner: u8,
        pub mid: u8,
        pub set_mid: usize,
        pub nset: usize,
        pub set_id: [usize; MAXSET],
        pub set_begin: [u32; MAXSET],
        pub set_end: [u32; MAXSET],
    }
    pub static mut BOOK: Book = Book { clock: 1, budget: 0, in_inner: 2, mid: 2, set_mid: 0, nset: 0,
        set_id: [0; MAXSET], set_begin: [0; MAXSET], set_end: [0; MAXSET] };
    pub static mut BPTR: usize = 1;

    fn tick() -> u32 {
        unsafe {
            BOOK.clock += 1;
            BOOK.clock
        }
    }

    pub fn hook_notifier<const CAP: usize>() {
        unsafe {
            if BOOK.in_inner == 1 {
                return;
            }
            BOOK.in_inner = 1;
            if BOOK.budget > 0 && kani::any::<bool>() {
                BOOK.budget -= 1;
                let id: usize = kani::any();
                // capacity 10: ids on both sides of the 8-bit element boundary
                kani::assume(id < CAP && (CAP < 10 || id == 1 || id == 8 || id == 9));
                let n = BOOK.nset;
                BOOK.set_id[n] = id;
                BOOK.set_begin[n] = tick();
                (*(BPTR as *const FixedSizeBitSet<CAP>)).set(id);
                BOOK.set_end[n] = tick();
                BOOK.nset += 1;
                if BOOK.mid == 1 {
                    BOOK.set_mid += 1;
                }
            }
            BOOK.in_inner = 2;
        }
    }

    /// The listener drains while notifiers set ids at any of its shared-memory operations; the
    /// last drain is a quiescent reset_all.  PLAN 0: reset_all*, reset_all;  PLAN 1: reset_next*,
    /// reset_all;  PLAN 2: reset_all*, reset_next*, reset_all  (* = notifications may land inside).
    ///  * no lost notification: a set() that completed before a reset_all drain k began is
    ///    delivered by some drain m <= k that ended after the set completed;
    ///  * reset_next finds something whenever a completed notification was pending when it began;
    ///  * no phantom: every delivered id was set by a set() that began before that drain ended,
    ///    and an id is never delivered more often than it was set.
    fn drain_race<const CAP: usize, const PLAN: u8>(nset: usize) {
        let s = FixedSizeBitSet::<CAP>::new();
        let ndr: usize = if PLAN == 2 { 3 } else { 2 };
        let next_at: usize = match PLAN { 1 => 0, 2 => 1, _ => 9 };
        unsafe {
            BPTR = &s as *const _ as usize;
            BOOK.budget = nset;
            hook_notifier::<CAP>(); // optionally one notification before the first drain
            verif_set_hook(hook_notifier::<CAP>);
            let mut begin = [0u32; DRAINS];
            let mut end = [0u32; DRAINS];
            let mut got = [[false; CAP]; DRAINS];
            let mut k = 0;
            while k < DRAINS {
                if k < ndr {
                    if k == ndr - 1 {
                        verif_clear_hook(); // final quiescent drain
                    }
                    begin[k] = tick();
                    BOOK.mid = 1;
                    if k == next_at {
                        if let Some(i) = s.reset_next() {
                            got[k][i] = true;
                        }
                    } else {
                        let g = &mut got[k];
                        s.reset_all(|i| {
                            assert!(!g[i], "c05: reset_all delivered an id twice");
                            g[i] = true;
                        });
                    }
                    BOOK.mid = 2;
                    end[k] = tick();
                }
                k += 1;
            }
            // no lost notification
            let mut n = 0;
            while n < MAXSET {
                if n < BOOK.nset {
                    let id = BOOK.set_id[n];
                    let mut k = 0;
                    while k < DRAINS {
                        // reset_next delivers at most one id: only reset_all drains are obliged to
                        // deliver everything that was pending when they began
                        if k < ndr && k != next_at && begin[k] > BOOK.set_end[n] {
                            let mut ok = false;
                            let mut m = 0;
                            while m < DRAINS {
                                if m <= k && end[m] > BOOK.set_end[n] && got[m][id] {
                                    ok = true;
                                }
                                m += 1;
                            }
                            assert!(ok, "c05: a notification completed before a drain began was never delivered (lost)");
                        }
                        k += 1;
                    }
                }
                n += 1;
            }
            // reset_next must find something if anything was pending when it began
            if next_at < DRAINS {
                let mut pending_before = false;
                let mut n = 0;
                while n < MAXSET {
                    if n < BOOK.nset && BOOK.set_end[n] < begin[next_at] {
                        let mut delivered_earlier = false;
                        let mut m = 0;
                        while m < DRAINS {
                            if m < next_at && end[m] > BOOK.set_end[n] && got[m][BOOK.set_id[n]] {
                                delivered_earlier = true;
                            }
                            m += 1;
                        }
                        if !delivered_earlier {
                            pending_before = true;
                        }
                    }
                    n += 1;
                }
                let mut found = false;
                let mut i = 0;
                while i < CAP {
                    if got[next_at][i] {
                        found = true;
                    }
                    i += 1;
                }
                if pending_before {
                    assert!(found, "c05: reset_next found nothing although a notification was pending");
                }
            }
            // no phantom, never more deliveries than notifications
            let mut i = 0;
            while i < CAP {
                let mut deliveries = 0;
                let mut m = 0;
                while m < DRAINS {
                    if got[m][i] {
                        deliveries += 1;
                        let mut justified = false;
                        let mut n = 0;
                        while n < MAXSET {
                            if n < BOOK.nset && BOOK.set_id[n] == i && BOOK.set_begin[n] < end[m] {
                                justified = true;
                            }
                            n += 1;
                        }
                        assert!(justified, "c05: delivered an id that was never notified (phantom)");
                    }
                    m += 1;
                }
                let mut sets = 0;
                let mut n = 0;
                while n < MAXSET {
                    if n < BOOK.nset && BOOK.set_id[n] == i {
                        sets += 1;
                    }
                    n += 1;
                }
                assert!(deliveries <= sets, "c05: an id was delivered more often than it was notified");
                i += 1;
            }
            kani::cover!(BOOK.set_mid >= 1, "a notification landed in the middle of a drain");
            kani::cover!(BOOK.set_mid >= 2, "two notifications landed in the middle of drains");
        }
        canaries();
    }

    proof!(12, fn c05_s_reset_all_race() { drain_race::<10, 0>(2); });
    proof!(10, fn c05_s_reset_next_race() { drain_race::<3, 1>(2); });
    proof!(12, fn c05_s_bitset_drain_race() { drain_race::<10, 2>(3); });
}
