//! c09 harnesses
