//! C09 — concurrent index allocation is exclusive, bounded and leak-free.
//!
//! (K) symbolic histories on FixedSizeUniqueIndexSet / StaticRobustUniqueIndexSet vs. a set model.
//! (S) two threads racing acquire/release on the real free-list (incl. the ABA shape), nested
//!     preemption at every atomic operation and every free-list cell access.

use crate::common::*;
use iceoryx2_bb_lock_free::mpmc::robust_unique_index_set::*;
use iceoryx2_bb_lock_free::mpmc::unique_index_set::*;
use iceoryx2_bb_lock_free::mpmc::unique_index_set_enums::*;

fn uis_history<const CAP: usize, const STEPS: usize>() {
    let s = FixedSizeUniqueIndexSet::<CAP>::new();
    assert!(s.capacity() as usize == CAP);
    let mut m = IdxSet::new();
    let mut locked = false;
    let mut was_full = false;
    let mut reacquired = false;
    let mut released_once = IdxSet::new();
    let mut step = 0;
    while step < STEPS {
        if kani::any() {
            match unsafe { s.acquire_raw_index() } {
                Ok(i) => {
                    assert!((i as usize) < CAP, "c09: index outside the capacity");
                    assert!(!m.has(i), "c09: index handed out twice");
                    assert!(!locked, "c09: acquire succeeded on a locked set");
                    if released_once.has(i) {
                        reacquired = true;
                    }
                    m.add(i);
                }
                Err(UniqueIndexSetAcquireFailure::OutOfIndices) => {
                    assert!(m.len() as usize == CAP, "c09: OutOfIndices although an index is free");
                    was_full = true;
                }
                Err(UniqueIndexSetAcquireFailure::IsLocked) => {
                    assert!(locked, "c09: IsLocked although the set was never locked");
                }
            }
        } else {
            let i: u32 = kani::any();
            kani::assume(m.has(i));
            let lock_if_last: bool = kani::any();
            let mode = if lock_if_last { ReleaseMode::LockIfLastIndex } else { ReleaseMode::Default };
            let st = unsafe { s.release_raw_index(i, mode) };
            m.del(i);
            released_once.add(i);
            if lock_if_last && m.len() == 0 {
                assert!(st == ReleaseState::Locked, "c09: releasing the last index with LockIfLastIndex did not lock");
                locked = true;
            } else {
                assert!(st == ReleaseState::Unlocked);
            }
        }
        assert!(s.is_locked() == locked);
        if !locked {
            assert!(s.borrowed_indices() == m.len() as usize, "c09: borrowed_indices differs from the model");
        }
        step += 1;
    }
    // leak freedom: after giving everything back every index is acquirable again (unless locked)
    let mut i = 0;
    while i < CAP as u32 {
        if m.has(i) {
            unsafe { s.release_raw_index(i, ReleaseMode::Default) };
            m.del(i);
        }
        i += 1;
    }
    if !locked {
        let mut got = IdxSet::new();
        let mut k = 0;
        while k < CAP {
            match unsafe { s.acquire_raw_index() } {
                Ok(i) => {
                    assert!((i as usize) < CAP && !got.has(i));
                    got.add(i);
                }
                Err(_) => assert!(false, "c09: an index leaked"),
            }
            k += 1;
        }
        assert!(unsafe { s.acquire_raw_index() } == Err(UniqueIndexSetAcquireFailure::OutOfIndices));
    } else {
        assert!(unsafe { s.acquire_raw_index() } == Err(UniqueIndexSetAcquireFailure::IsLocked), "c09: acquire after lock");
    }
    kani::cover!(was_full, "set exhausted");
    kani::cover!(reacquired, "released index handed out again");
    kani::cover!(locked, "set locked by releasing the last index");
}

proof!(8, fn c09_uis_history_cap2() { uis_history::<2, 5>(); canaries(); });
proof!(8, fn c09_uis_history_cap3() { uis_history::<3, 6>(); canaries(); });
proof!(8, fn c09_uis_history_cap1() { uis_history::<1, 4>(); canaries(); });
proof!(8, fn c09_uis_history_cap4() { uis_history::<4, 6>(); canaries(); });

/// RAII flavour: UniqueIndex gives its index back on drop
proof!(8, fn c09_uis_raii() {
    let s = FixedSizeUniqueIndexSet::<2>::new();
    let a = s.acquire().unwrap();
    {
        let b = s.acquire().unwrap();
        assert!(a.value() != b.value() && a.value() < 2 && b.value() < 2);
        assert!(s.acquire().is_err());
    }
    let c = s.acquire().unwrap();
    assert!(c.value() != a.value());
    assert!(s.borrowed_indices() == 2);
    canaries();
});

fn robust_history<const CAP: usize, const STEPS: usize>() {
    let s = StaticRobustUniqueIndexSet::<CAP>::new();
    // model: owner per index, 0 = free; owners are 1 and 2
    let mut own = [0u64; CAP];
    let mut locked = false;
    let mut recovered_any = false;
    let mut wrong_owner = false;
    let mut was_full = false;
    let mut step = 0;
    while step < STEPS {
        let op: u8 = kani::any();
        let who: u64 = kani::any();
        kani::assume(who == 1 || who == 2);
        let held = {
            let mut c = 0;
            let mut i = 0;
            while i < CAP {
                if own[i] != 0 {
                    c += 1;
                }
                i += 1;
            }
            c
        };
        match op {
            0 => match unsafe { s.acquire(OwnerId::new(who).unwrap()) } {
                Ok(i) => {
                    assert!(i < CAP, "c09: robust index outside the capacity");
                    assert!(own[i] == 0, "c09: robust index handed out twice");
                    assert!(!locked, "c09: robust acquire succeeded on a locked set");
                    own[i] = who;
                }
                Err(UniqueIndexSetAcquireFailure::OutOfIndices) => {
                    assert!(held == CAP, "c09: robust OutOfIndices although an index is free");
                    was_full = true;
                }
                Err(UniqueIndexSetAcquireFailure::IsLocked) => assert!(locked),
            },
            1 => {
                let i: usize = kani::any();
                kani::assume(i < CAP);
                let lock_if_last: bool = kani::any();
                let mode = if lock_if_last { ReleaseMode::LockIfLastIndex } else { ReleaseMode::Default };
                match unsafe { s.release(i, OwnerId::new(who).unwrap(), mode) } {
                    Ok(st) => {
                        assert!(own[i] == who, "c09: release by a non-owner succeeded");
                        own[i] = 0;
                        if lock_if_last && held == 1 && !locked {
                            assert!(st == ReleaseState::Locked);
                            locked = true;
                        } else if lock_if_last && locked {
                            assert!(st == ReleaseState::Locked);
                        } else {
                            assert!(st == ReleaseState::Unlocked);
                        }
                    }
                    Err(e) => {
                        assert!(e == RobustUniqueIndexSetReleaseError::IndexIsNotOwnedByProvidedOwner);
                        assert!(own[i] != who, "c09: release by the owner refused");
                        wrong_owner = true;
                    }
                }
            }
            _ => {
                // recover every index of the dead owner `who`
                let mut got = [false; CAP];
                let st = unsafe {
                    s.recover(ReleaseMode::Default, |o, _| o == OwnerId::new(who).unwrap(), |o, n| {
                        assert!(o == OwnerId::new(who).unwrap());
                        got[n] = true;
                    })
                };
                if locked {
                    assert!(st == ReleaseState::Locked);
                } else {
                    assert!(st == ReleaseState::Unlocked);
                    let mut i = 0;
                    while i < CAP {
                        assert!(got[i] == (own[i] == who), "c09: recovery did not return exactly the dead owner's indices");
                        if own[i] == who {
                            own[i] = 0;
                            recovered_any = true;
                        }
                        i += 1;
                    }
                }
            }
        }
        assert!(s.is_locked() == locked);
        step += 1;
    }
    if !locked {
        // everything that is free is acquirable
        let mut i = 0;
        let mut free = 0;
        while i < CAP {
            if own[i] == 0 {
                free += 1;
            }
            i += 1;
        }
        let mut k = 0;
        while k < CAP {
            if k < free {
                match unsafe { s.acquire(OwnerId::new(3).unwrap()) } {
                    Ok(i) => {
                        assert!(own[i] == 0);
                        own[i] = 3;
                    }
                    Err(_) => assert!(false, "c09: a free robust index is not acquirable"),
                }
            }
            k += 1;
        }
        assert!(unsafe { s.acquire(OwnerId::new(3).unwrap()) } == Err(UniqueIndexSetAcquireFailure::OutOfIndices));
    }
    kani::cover!(recovered_any, "dead owner's index recovered");
    kani::cover!(wrong_owner, "release with the wrong owner refused");
    kani::cover!(was_full, "robust set exhausted");
    kani::cover!(locked, "robust set locked");
}

proof!(4, fn c09_robust_history_cap2() { robust_history::<2, 3>(); canaries(); });
proof!(5, fn c09_robust_history_cap3() { robust_history::<3, 4>(); canaries(); });

// ==========================================================================================
// engine S
// ==========================================================================================

#[cfg(feature = "sched")]
pub mod sched {
    use super::*;
    use iceoryx2_pal_concurrency_sync::verif_atomic::{verif_cell_points, verif_clear_hook, verif_set_hook};

    pub const MAXC: usize = 4;

    pub struct Book {
        pub own: [u8; MAXC],       // 9 = free, 1 = outer thread, 2 = inner thread
        pub in_inner: u8,
        pub inner_budget: usize,
        pub outer_in_flight: u8,   // 1 = an outer operation is between its first and last shared op
        pub outer_release_in_flight: u8,
        pub max_held_in_op: usize,
        pub inner_mid_op: bool,
        pub inner_acq_mid_op: usize,
        pub inner_rel_mid_op: usize,
        pub bad_fail: bool,
        pub cap: usize,
        pub lock_mode: bool,       // every release uses LockIfLastIndex
        pub locked_returned: bool, // some release returned Locked
        pub releases: usize,
        pub acquired_after_lock: bool,
        pub bad_locked_fail: bool,
    }
    pub static mut BOOK: Book = Book {
        own: [9; MAXC], in_inner: 2, inner_budget: 0, outer_in_flight: 2, outer_release_in_flight: 2, max_held_in_op: 0,
        inner_mid_op: false, inner_acq_mid_op: 0, inner_rel_mid_op: 0, bad_fail: false, cap: 0, lock_mode: false,
        locked_returned: false, releases: 0, acquired_after_lock: false, bad_locked_fail: false,
    };
    pub static mut SPTR: usize = 1;

    // unrolled: this runs inside the hook at every scheduling point, a loop here would be unwound
    // hundreds of times
    fn held(b: &Book) -> usize {
        (b.own[0] != 9) as usize + (b.own[1] != 9) as usize + (b.own[2] != 9) as usize + (b.own[3] != 9) as usize
    }

    fn take(b: &mut Book, i: u32, who: u8) {
        assert!((i as usize) < b.cap, "c09: index outside the capacity");
        assert!(b.own[i as usize] == 9, "c09: two holders own the same index");
        b.own[i as usize] = who;
    }

    fn mode(b: &Book) -> ReleaseMode {
        if b.lock_mode { ReleaseMode::LockIfLastIndex } else { ReleaseMode::Default }
    }

    fn note_release(b: &mut Book, st: ReleaseState) {
        b.releases += 1;
        if st == ReleaseState::Locked {
            assert!(b.lock_mode, "c09: a Default release locked the set");
            b.locked_returned = true;
        }
    }

    unsafe fn set<const CAP: usize>() -> &'static FixedSizeUniqueIndexSet<CAP> {
        &*(SPTR as *const FixedSizeUniqueIndexSet<CAP>)
    }

    /// inner thread: one complete acquire or release, chosen by the solver
    pub fn hook<const CAP: usize>() {
        unsafe {
            let b = &mut BOOK;
            if b.in_inner == 1 {
                return;
            }
            b.in_inner = 1;
            if b.inner_budget > 0 && kani::any::<bool>() {
                b.inner_budget -= 1;
                let s = set::<CAP>();
                let mid = b.outer_in_flight == 1;
                if mid {
                    b.inner_mid_op = true;
                }
                let rel: bool = kani::any();
                let mut done = false;
                if rel {
                    let i: usize = kani::any();
                    kani::assume(i < CAP);
                    if b.own[i] == 2 {
                        b.own[i] = 9;
                        let st = s.release_raw_index(i as u32, mode(b));
                        note_release(b, st);
                        done = true;
                        if mid {
                            b.inner_rel_mid_op += 1;
                        }
                    }
                }
                if !done {
                    let h = held(b);
                    let locked_before = b.locked_returned;
                    match s.acquire_raw_index() {
                        Ok(i) => {
                            take(b, i, 2);
                            if locked_before {
                                b.acquired_after_lock = true;
                            }
                            if mid {
                                b.inner_acq_mid_op += 1;
                            }
                        }
                        Err(UniqueIndexSetAcquireFailure::OutOfIndices) => {
                            // the outer operation in flight may hold one index the table does not show yet
                            let slack = if mid { 1 } else { 0 };
                            if h + slack < CAP {
                                b.bad_fail = true;
                            }
                        }
                        Err(UniqueIndexSetAcquireFailure::IsLocked) => {
                            // legitimate only after (or while) a lock-if-last release emptied the set
                            if !(b.locked_returned || b.outer_release_in_flight == 1) {
                                b.bad_locked_fail = true;
                            }
                        }
                    }
                }
                let h = held(b);
                if h > b.max_held_in_op {
                    b.max_held_in_op = h;
                }
            }
            b.in_inner = 2;
        }
    }

    fn outer_acquire<const CAP: usize>(s: &FixedSizeUniqueIndexSet<CAP>) -> Option<u32> {
        unsafe {
            BOOK.max_held_in_op = held(&BOOK);
            let locked_before = BOOK.locked_returned;
            BOOK.outer_in_flight = 1;
            let r = s.acquire_raw_index();
            BOOK.outer_in_flight = 2;
            match r {
                Ok(i) => {
                    take(&mut BOOK, i, 1);
                    if locked_before {
                        BOOK.acquired_after_lock = true;
                    }
                    Some(i)
                }
                Err(UniqueIndexSetAcquireFailure::OutOfIndices) => {
                    if BOOK.max_held_in_op < CAP {
                        BOOK.bad_fail = true;
                    }
                    None
                }
                Err(UniqueIndexSetAcquireFailure::IsLocked) => {
                    if !BOOK.locked_returned {
                        BOOK.bad_locked_fail = true;
                    }
                    None
                }
            }
        }
    }

    fn outer_release<const CAP: usize>(s: &FixedSizeUniqueIndexSet<CAP>, i: u32) {
        unsafe {
            BOOK.own[i as usize] = 9;
            BOOK.outer_in_flight = 1;
            BOOK.outer_release_in_flight = 1;
            let st = s.release_raw_index(i, mode(&BOOK));
            BOOK.outer_release_in_flight = 2;
            BOOK.outer_in_flight = 2;
            note_release(&mut BOOK, st);
        }
    }

    /// outer: acquire, [release], acquire, [release] ...; inner: up to INNER complete operations
    pub fn race<const CAP: usize, const OUTER: usize, const INNER: usize>(lock_mode: bool, cell_points: bool) {
        let s = FixedSizeUniqueIndexSet::<CAP>::new();
        verif_cell_points(cell_points);
        unsafe {
            SPTR = &s as *const _ as usize;
            BOOK.cap = CAP;
            BOOK.lock_mode = lock_mode;
            BOOK.inner_budget = INNER;
            // optional warm-up by the inner thread so that the outer thread starts on a used free-list
            hook::<CAP>();
            let mut mine: [u32; MAXC] = [0; MAXC];
            let mut nmine = 0usize;
            // the outer thread may already hold an index when the race starts, so that its single
            // racing operation can be a release as well as an acquire
            if kani::any::<bool>() {
                if let Some(i) = outer_acquire(&s) {
                    mine[nmine] = i;
                    nmine += 1;
                }
            }
            verif_set_hook(hook::<CAP>);
            let mut k = 0;
            while k < OUTER {
                if nmine > 0 && kani::any::<bool>() {
                    nmine -= 1;
                    outer_release(&s, mine[nmine]);
                } else if let Some(i) = outer_acquire(&s) {
                    mine[nmine] = i;
                    nmine += 1;
                }
                hook::<CAP>();
                k += 1;
            }
            verif_clear_hook();
            assert!(!BOOK.bad_fail, "c09: acquire failed with OutOfIndices although an index was free during the whole call");
            assert!(!BOOK.bad_locked_fail, "c09: acquire failed with IsLocked although the set was never locked");
            assert!(!BOOK.acquired_after_lock, "c09: an acquire succeeded after a release had reported the set as locked");
            if BOOK.locked_returned {
                assert!(s.is_locked(), "c09: a release reported Locked but the set is not locked afterwards");
                assert!(held(&BOOK) == 0, "c09: the set was locked while an index was still held");
            } else {
                assert!(!s.is_locked(), "c09: the set is locked although no release reported it");
                assert!(s.borrowed_indices() == held(&BOOK), "c09: borrowed_indices differs from the holders");
                if lock_mode && BOOK.releases > 0 {
                    assert!(held(&BOOK) > 0, "c09: the last index was released with LockIfLastIndex but the set did not lock");
                }
                // give everything back (Default mode), then every index must be acquirable exactly once
                let mut i = 0;
                while i < CAP {
                    if BOOK.own[i] != 9 {
                        BOOK.own[i] = 9;
                        s.release_raw_index(i as u32, ReleaseMode::Default);
                    }
                    i += 1;
                }
                let mut got = IdxSet::new();
                let mut k = 0;
                while k < CAP {
                    match s.acquire_raw_index() {
                        Ok(i) => {
                            assert!((i as usize) < CAP && !got.has(i), "c09: free-list corrupted (duplicate index)");
                            got.add(i);
                        }
                        Err(_) => assert!(false, "c09: an index leaked under concurrency"),
                    }
                    k += 1;
                }
                assert!(s.acquire_raw_index().is_err());
            }
            kani::cover!(BOOK.inner_mid_op, "inner operation ran while an outer operation was in flight");
            if lock_mode {
                kani::cover!(BOOK.locked_returned && BOOK.inner_mid_op, "set locked in a race");
            } else {
                kani::cover!(BOOK.inner_acq_mid_op >= 1 && BOOK.inner_rel_mid_op >= 1,
                    "ABA shape: acquire and release completed inside one outer operation");
            }
        }
    }

    proof!(5, fn c09_s_uis_race_cap2() { race::<2, 1, 2>(false, false); canaries(); });
    proof!(5, fn c09_s_uis_race_cap2_lock() { race::<2, 1, 2>(true, false); canaries(); });
    proof!(7, fn c09_s_uis_race_cap3_deep() { race::<2, 1, 3>(false, true); canaries(); });
    proof!(7, fn c09_s_uis_race_cap2_lock_deep() { race::<2, 1, 3>(true, true); canaries(); });
    proof!(5, fn c09_s_uis_race_cap1() { race::<1, 1, 2>(false, false); canaries(); });

    // ---- robust index set: recovery of a dead owner racing with another recoverer and a live owner

    pub struct RBook {
        pub own: [u64; MAXC],     // 0 = free, else owner id (1 = dead owner, 2 = live owner)
        pub in_inner: u8,
        pub budget: usize,
        pub inner_ops: usize,
        pub inner_recovered: usize,
    }
    pub static mut RBOOK: RBook = RBook { own: [0; MAXC], in_inner: 2, budget: 1, inner_ops: 0, inner_recovered: 0 };
    pub static mut RPTR: usize = 1;

    const DEAD: u64 = 1;
    const LIVE: u64 = 2;

    unsafe fn rset<const CAP: usize>() -> &'static StaticRobustUniqueIndexSet<CAP> {
        &*(RPTR as *const StaticRobustUniqueIndexSet<CAP>)
    }

    /// inner thread(s): a second recoverer cleaning up the same dead owner, or the live owner
    /// acquiring / releasing
    /// KINDS selects what the inner thread may do (bit 0: a second recoverer, bit 1: the live owner
    /// acquires, bit 2: the live owner releases); arms that are not selected are not encoded
    pub fn rhook<const CAP: usize, const KINDS: u8>() {
        unsafe {
            let b = &mut RBOOK;
            if b.in_inner == 1 {
                return;
            }
            b.in_inner = 1;
            if b.budget > 0 && kani::any::<bool>() {
                b.budget -= 1;
                b.inner_ops += 1;
                let s = rset::<CAP>();
                let what: u8 = kani::any();
                kani::assume(what < 3 && (KINDS >> what) & 1 == 1);
                if KINDS & 1 != 0 && what == 0 {
                    s.recover(ReleaseMode::Default, |o, _| o == OwnerId::new(DEAD).unwrap(), |o, n| {
                        assert!(o == OwnerId::new(DEAD).unwrap());
                        assert!(RBOOK.own[n] == DEAD, "c09: recovery returned an index the dead owner does not hold");
                        RBOOK.own[n] = 0;
                        RBOOK.inner_recovered += 1;
                    });
                } else if KINDS & 2 != 0 && what == 1 {
                    match s.acquire(OwnerId::new(LIVE).unwrap()) {
                        Ok(n) => {
                            assert!(n < CAP && b.own[n] == 0, "c09: robust index handed out twice");
                            b.own[n] = LIVE;
                        }
                        Err(_) => {}
                    }
                } else if KINDS & 4 != 0 {
                    let n: usize = kani::any();
                    kani::assume(n < CAP);
                    if b.own[n] == LIVE {
                        b.own[n] = 0;
                        assert!(s.release(n, OwnerId::new(LIVE).unwrap(), ReleaseMode::Default).is_ok(),
                            "c09: the live owner's release was refused");
                    }
                }
            }
            b.in_inner = 2;
        }
    }

    pub fn robust_recover_race<const CAP: usize, const INNER: usize, const KINDS: u8>() {
        let s = StaticRobustUniqueIndexSet::<CAP>::new();
        unsafe {
            RPTR = &s as *const _ as usize;
            // the dead owner holds 1..=CAP indices, the live owner possibly one
            let ndead: usize = kani::any();
            kani::assume(ndead >= 1 && ndead <= CAP);
            let mut k = 0;
            while k < CAP {
                if k < ndead {
                    let n = s.acquire(OwnerId::new(DEAD).unwrap()).unwrap();
                    RBOOK.own[n] = DEAD;
                }
                k += 1;
            }
            RBOOK.budget = INNER;
            verif_set_hook(rhook::<CAP, KINDS>);
            let mut mine = 0;
            s.recover(ReleaseMode::Default, |o, _| o == OwnerId::new(DEAD).unwrap(), |o, n| {
                assert!(o == OwnerId::new(DEAD).unwrap());
                // exactly the dead owner's indices, each recovered by exactly one recoverer
                assert!(RBOOK.own[n] == DEAD, "c09: recovery returned an index that is not (or no longer) the dead owner's");
                RBOOK.own[n] = 0;
                mine += 1;
            });
            verif_clear_hook();
            // quiescent: the set agrees with the holders
            let mut holders = 0;
            let mut i = 0;
            while i < CAP {
                if RBOOK.own[i] != 0 {
                    holders += 1;
                    assert!(RBOOK.own[i] == LIVE, "c09: a dead owner's index was not recovered");
                }
                i += 1;
            }
            assert!(s.borrowed_indices() == holders, "c09: borrowed_indices differs from the live holders after recovery");
            // the live owner can still release what it holds
            let mut i = 0;
            while i < CAP {
                if RBOOK.own[i] == LIVE {
                    assert!(s.release(i, OwnerId::new(LIVE).unwrap(), ReleaseMode::Default).is_ok(),
                        "c09: live owner lost its index to a recovery");
                }
                i += 1;
            }
            assert!(mine + RBOOK.inner_recovered == ndead, "c09: dead owner's indices recovered more or less than once");
            if KINDS & 1 != 0 {
                kani::cover!(RBOOK.inner_recovered > 0 && mine > 0, "two recoverers shared the dead owner's indices");
            } else {
                kani::cover!(holders > 0 && mine > 0, "the live owner acquired an index during the recovery and kept it");
            }
            kani::cover!(RBOOK.inner_ops >= 2, "two inner operations ran during the recovery");
        }
    }

    proof!(5, fn c09_s_robust_recover_vs_recover() { robust_recover_race::<2, 2, 3>(); canaries(); });
    proof!(5, fn c09_s_robust_recover_vs_owner() { robust_recover_race::<2, 2, 6>(); canaries(); });
    proof!(5, fn c09_s_robust_recover_race() { robust_recover_race::<2, 2, 7>(); canaries(); });
    proof!(7, fn c09_s_robust_recover_race_deep() { robust_recover_race::<2, 3, 7>(); canaries(); });
}
