//! C14 — shared-memory data structures are position independent.
//!
//! Metamorphic harness: the structure is built in heap block A, J symbolic operations are
//! applied, the block is copied byte-for-byte to a fresh block B, A is overwritten with 0xFF and
//! freed (CBMC reports any later dereference into A; natively a stale pointer reads garbage),
//! the remaining operations run on B and, in lock-step, on a twin that stays where it is.  All
//! observable results must agree.  J is symbolic: the relocation point ranges over the history.

use crate::common::*;
use core::alloc::Layout;
use core::mem::MaybeUninit;
use core::ptr::NonNull;
use iceoryx2_bb_container::flatmap::FixedSizeFlatMap;
use iceoryx2_bb_container::queue::FixedSizeQueue;
use iceoryx2_bb_container::slotmap::{FixedSizeSlotMap, SlotMapKey};
use iceoryx2_bb_container::string::{StaticString, String as IoxString};
use iceoryx2_bb_container::vector::*;
use iceoryx2_bb_elementary::bump_allocator::BumpAllocator;
use iceoryx2_bb_elementary::relocatable_pointer::RelocatablePointer;
use iceoryx2_bb_elementary_traits::pointer::Pointer;
use iceoryx2_bb_elementary_traits::relocatable_container::RelocatableContainer;
use iceoryx2_bb_lock_free::mpmc::bit_set::FixedSizeBitSet;
use iceoryx2_bb_lock_free::mpmc::container::{FixedSizeContainer, ContainerHandle};
use iceoryx2_bb_lock_free::mpmc::counting_bit_set::FixedSizeCountingBitSet;
use iceoryx2_bb_lock_free::mpmc::robust_unique_index_set::{OwnerId, StaticRobustUniqueIndexSet};
use iceoryx2_bb_lock_free::mpmc::unique_index_set::FixedSizeUniqueIndexSet;
use iceoryx2_bb_lock_free::mpmc::unique_index_set_enums::ReleaseMode;
use iceoryx2_bb_lock_free::spsc::index_queue::FixedSizeIndexQueue;
use iceoryx2_bb_lock_free::spsc::safely_overflowing_index_queue::FixedSizeSafelyOverflowingIndexQueue;

/// A relocatable structure under test: `op` applies operation `code` with argument `arg` and
/// returns everything observable about the outcome folded into a u64.
pub trait Reloc: Sized {
    /// construct in place (the constructors return by value, so this already moves the object)
    unsafe fn mk(at: *mut Self);
    fn op(&mut self, code: u8, arg: u64) -> u64;
    /// an observation of the whole content that does not depend on addresses
    fn observe(&mut self) -> u64;
    /// true: the old block is scribbled but kept alive until the end, and `old_intact` must hold
    /// then (a structure that remembers an absolute address *writes* into its old mapping; a
    /// write into a freed block cannot be confirmed natively, a changed scribble pattern can)
    const KEEP_OLD: bool = false;
    unsafe fn old_intact(_old: *const Self) -> bool {
        true
    }
}

pub const NONE: u64 = 0xFFFF_FFFF_0000_0000;

pub fn relocation<T: Reloc, const K: usize>() {
    let layout = Layout::new::<T>();
    unsafe {
        let a = alloc::alloc::alloc(layout) as *mut T;
        let b = alloc::alloc::alloc(layout) as *mut T;
        T::mk(a);
        let mut twin_mem = MaybeUninit::<T>::uninit();
        T::mk(twin_mem.as_mut_ptr());
        let twin = &mut *twin_mem.as_mut_ptr();
        // the operation sequence and the relocation point J are symbolic; the history is split
        // into "before the move" (on block A) and "after the move" (on block B) so that every
        // dereference goes through a fixed pointer
        let j: usize = kani::any();
        kani::assume(j <= K);
        let codes: [u8; K] = kani::any();
        let args: [u64; K] = kani::any();
        let mut i = 0;
        while i < K {
            if i < j {
                let r1 = (*a).op(codes[i], args[i]);
                let r2 = twin.op(codes[i], args[i]);
                assert!(r1 == r2, "c14: twin structures diverge before any relocation (harness defect)");
            }
            i += 1;
        }
        // relocate: byte copy to the fresh block, scribble over and free the old one
        core::ptr::copy_nonoverlapping(a as *const u8, b as *mut u8, layout.size());
        core::ptr::write_bytes(a as *mut u8, 0xFF, layout.size());
        if !T::KEEP_OLD {
            alloc::alloc::dealloc(a as *mut u8, layout);
        }
        let mut i = 0;
        while i < K {
            if i >= j {
                let r1 = (*b).op(codes[i], args[i]);
                let r2 = twin.op(codes[i], args[i]);
                assert!(r1 == r2, "c14: relocated structure behaves differently from the one that stayed");
            }
            i += 1;
        }
        assert!((*b).observe() == twin.observe(), "c14: content differs after relocation");
        if T::KEEP_OLD {
            assert!(T::old_intact(a), "c14: the relocated structure wrote into its old location (absolute address kept)");
            alloc::alloc::dealloc(a as *mut u8, layout);
        }
        core::ptr::drop_in_place(b);
        alloc::alloc::dealloc(b as *mut u8, layout);
        core::ptr::drop_in_place(twin as *mut T);
        kani::cover!(j > 0 && (j < K || K <= 2), "relocated after at least one operation");
    }
}

fn opt(v: Option<u64>) -> u64 {
    match v {
        Some(x) => x & 0xFFFF_FFFF,
        None => NONE,
    }
}

// ---- spsc index queues ---------------------------------------------------------------------

impl Reloc for FixedSizeIndexQueue<2> {
    unsafe fn mk(at: *mut Self) { at.write(Self::new()) }
    fn op(&mut self, code: u8, arg: u64) -> u64 {
        if code & 1 == 0 { unsafe { self.push(arg) as u64 } } else { opt(unsafe { self.pop() }) }
    }
    fn observe(&mut self) -> u64 {
        let l = self.len() as u64;
        let a = opt(unsafe { self.pop() });
        let b = opt(unsafe { self.pop() });
        l ^ (a << 8) ^ (b << 24) ^ ((self.is_empty() as u64) << 60)
    }
}

impl<const CAP: usize> Reloc for FixedSizeSafelyOverflowingIndexQueue<CAP> {
    unsafe fn mk(at: *mut Self) { at.write(Self::new()) }
    fn op(&mut self, code: u8, arg: u64) -> u64 {
        if code & 1 == 0 { opt(unsafe { self.push(arg) }) ^ 1 } else { opt(unsafe { self.pop() }) }
    }
    fn observe(&mut self) -> u64 {
        let l = self.len() as u64;
        let a = opt(unsafe { self.pop() });
        let b = opt(unsafe { self.pop() });
        l ^ (a << 8) ^ (b << 24)
    }
}

// ---- index sets ------------------------------------------------------------------------------

#[repr(C)]
pub struct UisUnderTest {
    s: FixedSizeUniqueIndexSet<3>,
    held: u8,
}

impl Reloc for UisUnderTest {
    unsafe fn mk(at: *mut Self) { at.write(UisUnderTest { s: FixedSizeUniqueIndexSet::new(), held: 0 }) }
    fn op(&mut self, code: u8, arg: u64) -> u64 {
        if code & 1 == 0 {
            match unsafe { self.s.acquire_raw_index() } {
                Ok(i) => {
                    assert!(i < 3 && (self.held >> i) & 1 == 0, "c14: index handed out twice after relocation");
                    self.held |= 1 << i;
                    i as u64
                }
                Err(_) => NONE,
            }
        } else {
            let i = (arg % 3) as u32;
            if (self.held >> i) & 1 == 1 {
                self.held &= !(1 << i);
                unsafe { self.s.release_raw_index(i, ReleaseMode::Default) as u64 + 100 }
            } else {
                77
            }
        }
    }
    fn observe(&mut self) -> u64 {
        let l = self.s.borrowed_indices() as u64;
        let a = match unsafe { self.s.acquire_raw_index() } { Ok(i) => i as u64, Err(_) => NONE };
        l ^ (a << 8) ^ ((self.held as u64) << 40)
    }
}

impl Reloc for StaticRobustUniqueIndexSet<2> {
    unsafe fn mk(at: *mut Self) { at.write(Self::new()) }
    fn op(&mut self, code: u8, arg: u64) -> u64 {
        let owner = OwnerId::new(1 + (arg & 1)).unwrap();
        if code & 1 == 0 {
            match self.acquire(owner) { Ok(i) => i as u64, Err(_) => NONE }
        } else {
            match unsafe { self.release(((arg >> 1) & 1) as usize, owner, ReleaseMode::Default) } {
                Ok(_) => 1,
                Err(_) => 2,
            }
        }
    }
    fn observe(&mut self) -> u64 {
        self.borrowed_indices() as u64 ^ ((self.is_locked() as u64) << 8)
    }
}

// ---- bit sets --------------------------------------------------------------------------------

impl Reloc for FixedSizeBitSet<9> {
    unsafe fn mk(at: *mut Self) { at.write(Self::new()) }
    fn op(&mut self, code: u8, arg: u64) -> u64 {
        if code & 1 == 0 { self.set((arg % 9) as usize) as u64 } else { opt(self.reset_next().map(|v| v as u64)) }
    }
    fn observe(&mut self) -> u64 {
        let mut acc = 0u64;
        self.reset_all(|i| acc |= 1 << i);
        acc
    }
}

impl Reloc for FixedSizeCountingBitSet<3> {
    unsafe fn mk(at: *mut Self) { at.write(Self::new()) }
    fn op(&mut self, _code: u8, arg: u64) -> u64 {
        self.set((arg % 3) as usize)
    }
    fn observe(&mut self) -> u64 {
        let mut acc = 0u64;
        self.reset_all(|s| acc += (s.count() + 1) << (8 * s.bit()));
        acc
    }
}

// ---- registry container (add / remove; snapshots are process local by design) ----------------

pub struct ContainerUnderTest {
    c: FixedSizeContainer<u32, 2>,
    handles: [Option<ContainerHandle>; 2],
}

impl Reloc for ContainerUnderTest {
    unsafe fn mk(at: *mut Self) { at.write(ContainerUnderTest { c: FixedSizeContainer::new(), handles: [None, None] }) }
    fn op(&mut self, code: u8, arg: u64) -> u64 {
        let owner = OwnerId::new(5).unwrap();
        if code & 1 == 0 {
            match self.c.add(arg as u32, owner) {
                Ok((p, h)) => {
                    let v = unsafe { *p };
                    assert!(v == arg as u32, "c14: container slot does not hold the added value");
                    assert!(h.index() < 2 && self.handles[h.index()].is_none(), "c14: container slot handed out twice");
                    self.handles[h.index()] = Some(h);
                    h.index() as u64
                }
                Err(_) => NONE,
            }
        } else {
            let i = (arg & 1) as usize;
            match self.handles[i].take() {
                Some(h) => match unsafe { self.c.remove(h, ReleaseMode::Default) } {
                    Ok(_) => 50,
                    Err(_) => 51,
                },
                None => 77,
            }
        }
    }
    fn observe(&mut self) -> u64 {
        (self.c.is_empty() as u64) ^ ((self.handles[0].is_some() as u64) << 4) ^ ((self.handles[1].is_some() as u64) << 5)
    }
}

// ---- bb-container: vector, queue, string, slot map, flat map ---------------------------------

impl Reloc for StaticVec<u8, 3> {
    unsafe fn mk(at: *mut Self) { at.write(Self::new()) }
    fn op(&mut self, code: u8, arg: u64) -> u64 {
        match code & 3 {
            0 => self.push(arg as u8).is_ok() as u64,
            1 => opt(self.pop().map(|v| v as u64)),
            2 => self.insert((arg >> 8) as usize & 3, arg as u8).is_ok() as u64,
            _ => opt(self.remove((arg >> 8) as usize & 3).map(|v| v as u64)),
        }
    }
    fn observe(&mut self) -> u64 {
        let mut acc = self.len() as u64;
        let mut i = 0;
        while i < 3 {
            if i < self.len() {
                acc ^= (self.as_slice()[i] as u64) << (8 + 8 * i);
            }
            i += 1;
        }
        acc
    }
}

#[repr(C)]
pub struct RelocVecBlock {
    vec: RelocatableVec<u8>,
    data: [MaybeUninit<u8>; 3],
}

impl Reloc for RelocVecBlock {
    unsafe fn mk(at: *mut Self) {
        core::ptr::addr_of_mut!((*at).vec).write(RelocatableVec::new_uninit(3));
        let alloc = BumpAllocator::new(NonNull::new(core::ptr::addr_of_mut!((*at).data) as *mut u8).unwrap(), 3);
        assert!((*at).vec.init(&alloc).is_ok());
    }
    fn op(&mut self, code: u8, arg: u64) -> u64 {
        match code & 3 {
            0 => self.vec.push(arg as u8).is_ok() as u64,
            1 => opt(self.vec.pop().map(|v| v as u64)),
            2 => self.vec.insert((arg >> 8) as usize & 3, arg as u8).is_ok() as u64,
            _ => opt(self.vec.remove((arg >> 8) as usize & 3).map(|v| v as u64)),
        }
    }
    fn observe(&mut self) -> u64 {
        let mut acc = self.vec.len() as u64;
        let mut i = 0;
        while i < 3 {
            if i < self.vec.len() {
                acc ^= (self.vec.as_slice()[i] as u64) << (8 + 8 * i);
            }
            i += 1;
        }
        acc
    }
}

impl Reloc for FixedSizeQueue<u8, 2> {
    unsafe fn mk(at: *mut Self) { at.write(Self::new()) }
    fn op(&mut self, code: u8, arg: u64) -> u64 {
        match code & 3 {
            0 => self.push(arg as u8) as u64,
            1 => opt(self.pop().map(|v| v as u64)),
            2 => opt(self.push_with_overflow(arg as u8).map(|v| v as u64)) ^ 3,
            _ => opt(self.peek().map(|v| *v as u64)) ^ 5,
        }
    }
    fn observe(&mut self) -> u64 {
        let l = self.len() as u64;
        let a = opt(self.pop().map(|v| v as u64));
        let b = opt(self.pop().map(|v| v as u64));
        l ^ (a << 8) ^ (b << 24)
    }
}

impl Reloc for StaticString<3> {
    unsafe fn mk(at: *mut Self) { at.write(Self::new()) }
    fn op(&mut self, code: u8, arg: u64) -> u64 {
        match code & 3 {
            0 => self.push(arg as u8).is_ok() as u64,
            1 => opt(self.pop().map(|v| v as u64)),
            2 => {
                let idx = (arg >> 8) as usize & 3;
                if idx <= self.len() { self.insert(idx, arg as u8).is_ok() as u64 } else { 9 }
            }
            _ => {
                let idx = (arg >> 8) as usize & 3;
                if idx < self.len() { opt(self.remove(idx).map(|v| v as u64)) } else { 9 }
            }
        }
    }
    fn observe(&mut self) -> u64 {
        let mut acc = self.len() as u64;
        let mut i = 0;
        while i < 3 {
            if i < self.len() {
                acc ^= (self.as_bytes()[i] as u64) << (8 + 8 * i);
            }
            i += 1;
        }
        acc
    }
}

impl Reloc for FixedSizeSlotMap<u8, 2> {
    unsafe fn mk(at: *mut Self) { at.write(Self::new()) }
    fn op(&mut self, code: u8, arg: u64) -> u64 {
        let key = SlotMapKey::new((arg >> 8) as usize & 1);
        match code & 3 {
            0 => opt(self.insert(arg as u8).map(|k| k.value() as u64)),
            1 => opt(self.remove(key).map(|v| v as u64)),
            2 => opt(self.get(key).map(|v| *v as u64)) ^ 3,
            _ => opt(self.next_free_key().map(|k| k.value() as u64)) ^ 5,
        }
    }
    fn observe(&mut self) -> u64 {
        let mut acc = self.len() as u64;
        for (k, v) in self.iter() {
            acc ^= ((*v as u64) + 1) << (8 + 8 * k.value());
        }
        acc
    }
}

impl Reloc for FixedSizeFlatMap<u8, u8, 2> {
    unsafe fn mk(at: *mut Self) { at.write(Self::new()) }
    fn op(&mut self, code: u8, arg: u64) -> u64 {
        let key = (arg >> 8) as u8 & 3;
        match code & 3 {
            0 => match self.insert(key, arg as u8) { Ok(_) => 1, Err(e) => 10 + e as u64 },
            1 => opt(self.remove(&key).map(|v| v as u64)),
            2 => opt(self.get(&key).map(|v| v as u64)) ^ 3,
            _ => self.contains(&key) as u64 ^ 5,
        }
    }
    fn observe(&mut self) -> u64 {
        let mut acc = self.len() as u64;
        let mut n = 0;
        self.list_keys(|k| {
            acc ^= ((*k as u64) + 1) << (8 + 8 * n);
            n += 1;
            iceoryx2_bb_elementary::CallbackProgression::Continue
        });
        acc
    }
}

proof!(8, fn c14_index_queue() { relocation::<FixedSizeIndexQueue<2>, 3>(); canaries(); });
proof!(8, fn c14_overflow_queue() { relocation::<FixedSizeSafelyOverflowingIndexQueue<2>, 3>(); canaries(); });
// capacity 1: fill, overflow, relocate, push again fits into three operations (the overflow path is the only
// one that touches the oldest cell from the producer side)
proof!(8, fn c14_overflow_queue_cap1() { relocation::<FixedSizeSafelyOverflowingIndexQueue<1>, 3>(); canaries(); });
proof!(8, fn c14_unique_index_set() { relocation::<UisUnderTest, 3>(); canaries(); });
proof!(8, fn c14_robust_index_set() { relocation::<StaticRobustUniqueIndexSet<2>, 2>(); canaries(); });
proof!(11, fn c14_bit_set() { relocation::<FixedSizeBitSet<9>, 2>(); canaries(); });
proof!(8, fn c14_counting_bit_set() { relocation::<FixedSizeCountingBitSet<3>, 3>(); canaries(); });
proof!(8, fn c14_container() { relocation::<ContainerUnderTest, 2>(); canaries(); });
proof!(8, fn c14_static_vec() { relocation::<StaticVec<u8, 3>, 3>(); canaries(); });
proof!(8, fn c14_relocatable_vec() { relocation::<RelocVecBlock, 3>(); canaries(); });
proof!(8, fn c14_queue() { relocation::<FixedSizeQueue<u8, 2>, 3>(); canaries(); });
proof!(8, fn c14_string() { relocation::<StaticString<3>, 3>(); canaries(); });
proof!(8, fn c14_slot_map() { relocation::<FixedSizeSlotMap<u8, 2>, 3>(); canaries(); });
proof!(8, fn c14_flat_map() { relocation::<FixedSizeFlatMap<u8, u8, 2>, 3>(); canaries(); });

/// RelocatablePointer::as_ptr: the resolved target moves by exactly the placement delta
proof!(4, fn c14_relocatable_pointer() {
    #[repr(C)]
    struct Blk {
        ptr: RelocatablePointer<u8>,
        data: [u8; 16],
    }
    let dist: usize = kani::any();
    kani::assume(dist < 16);
    let layout = Layout::new::<Blk>();
    unsafe {
        let a = alloc::alloc::alloc(layout) as *mut Blk;
        core::ptr::addr_of_mut!((*a).ptr).write(RelocatablePointer::new_uninit());
        let target = (core::ptr::addr_of_mut!((*a).data) as *mut u8).add(dist);
        (*a).ptr.init(NonNull::new(target).unwrap());
        *target = 0x5A;
        assert!((*a).ptr.as_ptr() == target as *const u8);
        let b = alloc::alloc::alloc(layout) as *mut Blk;
        core::ptr::copy_nonoverlapping(a as *const u8, b as *mut u8, layout.size());
        core::ptr::write_bytes(a as *mut u8, 0xFF, layout.size());
        alloc::alloc::dealloc(a as *mut u8, layout);
        let expect = (core::ptr::addr_of!((*b).data) as *const u8).add(dist);
        assert!((*b).ptr.as_ptr() == expect, "c14: relocatable pointer does not follow its block");
        assert!(*(*b).ptr.as_ptr() == 0x5A, "c14: relocated pointer does not reach its data");
        alloc::alloc::dealloc(b as *mut u8, layout);
    }
    canaries();
});

/// negative control (must FAIL, checked by the driver): the bb-memory pool allocator keeps an
/// absolute start address by design, so using a byte-copied instance must be flagged
pub mod negative_control {
    use super::*;
    use iceoryx2_bb_elementary_traits::allocator::Allocate;
    use iceoryx2_bb_memory::pool_allocator::FixedSizePoolAllocator;

    #[repr(C)]
    struct Blk {
        alloc: FixedSizePoolAllocator<4>,
        mem: [u64; 4],
    }

    proof!(10, fn c14_negative_control_absolute_pointer() {
        let layout = Layout::new::<Blk>();
        unsafe {
            let a = alloc::alloc::alloc(layout) as *mut Blk;
            let memp = core::ptr::addr_of_mut!((*a).mem) as *mut u8;
            core::ptr::addr_of_mut!((*a).alloc).write(FixedSizePoolAllocator::<4>::new(
                Layout::from_size_align(8, 8).unwrap(), NonNull::new(memp).unwrap(), 24));
            let b = alloc::alloc::alloc(layout) as *mut Blk;
            core::ptr::copy_nonoverlapping(a as *const u8, b as *mut u8, layout.size());
            core::ptr::write_bytes(a as *mut u8, 0xFF, layout.size());
            alloc::alloc::dealloc(a as *mut u8, layout);
            let p = (*b).alloc.allocate(Layout::from_size_align(8, 8).unwrap()).unwrap();
            let lo = core::ptr::addr_of!((*b).mem) as usize;
            assert!(p.as_ptr() as usize >= lo && (p.as_ptr() as usize) < lo + 32, "c14(negative control): allocation outside the relocated block");
        }
    });
}
