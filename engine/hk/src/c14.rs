//! c14 harnesses
