//! c12 harnesses
