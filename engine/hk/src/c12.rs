//! C12 — blackboard entries (UnrestrictedAtomic) are read in one piece, monotonically; one writer.
//!
//! Tear model: `core::ptr::copy_nonoverlapping` (the reader's copy in `UnrestrictedAtomicMgmt::load`)
//! is replaced (Kani stub) by a byte loop with a scheduling point in the middle, so the writer
//! can lap the reader inside one copy.

use crate::common::*;
use iceoryx2_bb_lock_free::spmc::unrestricted_atomic::*;

pub static mut COPY_CALLS: u32 = 100;

/// plain byte copy (no scheduling point) — used by the sequential harnesses
pub unsafe fn byte_copy<T>(src: *const T, dst: *mut T, count: usize) {
    unsafe {
        COPY_CALLS += 1;
        let n = count * core::mem::size_of::<T>();
        let s = src as *const u8;
        let d = dst as *mut u8;
        let mut i = 0;
        while i < n {
            *d.add(i) = *s.add(i);
            i += 1;
        }
    }
}

type Pair = [u32; 2];
fn pair(i: u32) -> Pair {
    [i, !i]
}
fn is_pair(v: Pair) -> bool {
    v[1] == !v[0]
}

/// sequential: k stores (both store flavours) each followed by a load; single-writer rule
proof_copy!(10, crate::c12::byte_copy, fn c12_seq_store_load() {
    let init: u32 = kani::any();
    let a = UnrestrictedAtomic::<Pair>::new(pair(init));
    assert!(a.load() == pair(init), "c12: initial value not readable");
    let p = a.acquire_producer().unwrap();
    assert!(a.acquire_producer().is_none(), "c12: a second producer was handed out");
    // the refused attempt must not disturb the first handle: further attempts stay refused
    assert!(a.acquire_producer().is_none(), "c12: a refused acquisition released the first producer's claim");
    let mut step = 0;
    while step < 3 {
        let v: u32 = kani::any();
        if kani::any() {
            p.store(pair(v));
        } else {
            unsafe {
                let ptr = p.__internal_get_ptr_to_write_cell();
                // until the write cell is published the readers still see the old value
                let before = a.load();
                ptr.write(pair(v));
                assert!(a.load() == before, "c12: unpublished loan-style write is visible");
                p.__internal_update_write_cell();
            }
        }
        assert!(a.load() == pair(v), "c12: load does not return the last stored value");
        assert!(a.__internal_get_write_cell() == step as u64 + 2);
        step += 1;
    }
    drop(p);
    let p2 = a.acquire_producer();
    assert!(p2.is_some(), "c12: producer not re-acquirable after drop");
    assert!(unsafe { COPY_CALLS } > 100, "harness: copy stub not reached");
    canaries();
});

/// raw management API with run-time type details (size, alignment): the two cells do not overlap,
/// are aligned and stay inside the computed atomic size -- for every misalignment of the raw
/// memory and every size that is a multiple of the alignment (address arithmetic only)
fn raw_layout<const ALIGN: usize>() {
    let mut mem = Block::<128>::new();
    let mis: usize = kani::any();
    kani::assume(mis < 8);
    let align = ALIGN;
    let units: usize = kani::any();
    kani::assume(units >= 1 && units <= 3);
    let size = units * align; // sizes are multiples of the alignment (Rust layout rule)
    kani::assume(size <= 12);
    let total = UnrestrictedAtomicMgmt::__internal_get_unrestricted_atomic_size(size, align);
    let talign = UnrestrictedAtomicMgmt::__internal_get_unrestricted_atomic_alignment(align);
    assert!(total % talign == 0);
    unsafe {
        let raw = mem.0.as_mut_ptr().add(mis);
        let ptrs = __internal_calculate_atomic_mgmt_and_payload_ptr(raw, align);
        let base = ptrs.atomic_mgmt_ptr as usize;
        assert!(base >= raw as usize && base < raw as usize + talign, "c12: management block not at the next aligned address");
        assert!(base % talign == 0, "c12: management block misaligned");
        let c0 = UnrestrictedAtomicMgmt::__internal_get_data_cell(size, align, ptrs.atomic_payload_ptr, 0);
        let c1 = UnrestrictedAtomicMgmt::__internal_get_data_cell(size, align, ptrs.atomic_payload_ptr, 1);
        assert!(c0 % align == 0 && c1 % align == 0, "c12: data cell misaligned");
        assert!(c0 + size <= c1 || c1 + size <= c0, "c12: data cells overlap");
        assert!(c0 >= base + core::mem::size_of::<UnrestrictedAtomicMgmt>(), "c12: data cell overlaps the management block");
        assert!(c0 + size <= base + total && c1 + size <= base + total, "c12: data cell outside the computed atomic size");
    }
    kani::cover!((units == 3 || size + align > 12) && mis == 7, "largest value at the worst misalignment");
    canaries();
}

/// store through the raw API and load back, at a concrete misalignment and size (the pointer
/// arithmetic for every misalignment/size is covered by `raw_layout`)
fn raw_roundtrip<const ALIGN: usize, const SIZE: usize, const MIS: usize>() {
    let mut mem = Block::<128>::new();
    let (size, align) = (SIZE, ALIGN);
    unsafe {
        let raw = mem.0.as_mut_ptr().add(MIS);
        let ptrs = __internal_calculate_atomic_mgmt_and_payload_ptr(raw, align);
        let mgmt = &*(ptrs.atomic_mgmt_ptr as *const UnrestrictedAtomicMgmt);
        let c1 = UnrestrictedAtomicMgmt::__internal_get_data_cell(size, align, ptrs.atomic_payload_ptr, 1);
        let mut round = 0;
        while round < 2 {
            let val: [u8; SIZE] = kani::any();
            let w = mgmt.__internal_get_ptr_to_write_cell(size, align, ptrs.atomic_payload_ptr);
            if round == 0 {
                assert!(w as usize == c1, "c12: first write goes to the cell the readers are not using");
            }
            let mut i = 0;
            while i < SIZE {
                *w.add(i) = val[i];
                i += 1;
            }
            mgmt.__internal_update_write_cell();
            let mut out = [0u8; SIZE];
            mgmt.load(out.as_mut_ptr(), size, align, ptrs.atomic_payload_ptr);
            let mut i = 0;
            while i < SIZE {
                assert!(out[i] == val[i], "c12: raw load differs from the stored bytes");
                i += 1;
            }
            round += 1;
        }
    }
    kani::cover!(true, "round trip completed");
    canaries();
}

proof_copy!(14, crate::c12::byte_copy, fn c12_seq_raw_layout_align1() { raw_layout::<1>(); });
proof_copy!(14, crate::c12::byte_copy, fn c12_seq_raw_layout_align4() { raw_layout::<4>(); });
proof_copy!(14, crate::c12::byte_copy, fn c12_seq_raw_layout_align8() { raw_layout::<8>(); });
proof_copy!(14, crate::c12::byte_copy, fn c12_seq_raw_roundtrip_a1_s3_m7() { raw_roundtrip::<1, 3, 7>(); });
proof_copy!(14, crate::c12::byte_copy, fn c12_seq_raw_roundtrip_a4_s12_m5() { raw_roundtrip::<4, 12, 5>(); });
proof_copy!(14, crate::c12::byte_copy, fn c12_seq_raw_roundtrip_a8_s8_m1() { raw_roundtrip::<8, 8, 1>(); });

// ==========================================================================================
// engine S
// ==========================================================================================

#[cfg(feature = "sched")]
pub mod sched {
    use super::*;
    use iceoryx2_pal_concurrency_sync::verif_atomic::{verif_clear_hook, verif_set_hook, yield_point};

    pub static mut SPLITS: u32 = 100;

    /// tear model: scheduling point, first half, scheduling point, second half (the point in
    /// front lets the other thread act between the load of the cell number and the copy)
    pub unsafe fn split_copy<T>(src: *const T, dst: *mut T, count: usize) {
        unsafe {
            let n = count * core::mem::size_of::<T>();
            let s = src as *const u8;
            let d = dst as *mut u8;
            let half = n / 2;
            let mut i = 0;
            yield_point();
            while i < half {
                *d.add(i) = *s.add(i);
                i += 1;
            }
            SPLITS += 1;
            yield_point();
            while i < n {
                *d.add(i) = *s.add(i);
                i += 1;
            }
        }
    }

    pub struct Book {
        pub next: u32,          // next value the writer stores (values 1, 2, 3, ...)
        pub completed: u32,     // last value whose store has completed
        pub budget: usize,
        pub in_inner: u8,
        pub mid: u8,
        pub writes_mid_load: usize,
        pub loads_mid_store: usize,
        pub last_seen: u32,
        pub bad: u8,            // 2 = fine
        pub loan_open: u8,      // 1 = a loan-style write is written but not published
        pub loans: usize,
        pub loads_during_loan: usize,
    }
    pub static mut BOOK: Book = Book { next: 1, completed: 0, budget: 0, in_inner: 2, mid: 2, writes_mid_load: 0,
        loads_mid_store: 0, last_seen: 0, bad: 2, loan_open: 2, loans: 0, loads_during_loan: 0 };
    pub static mut APTR: usize = 1;
    pub static mut PPTR: usize = 1;

    unsafe fn atomic() -> &'static UnrestrictedAtomic<Pair> {
        &*(APTR as *const UnrestrictedAtomic<Pair>)
    }

    /// writer actions: 0 = store(copy), 1 = loan-style write into the write cell (not yet
    /// published), 2 = publish the open loan.  While a loan is open the only possible action is 2.
    fn writer_action(which: u8) {
        unsafe {
            let p = &*(PPTR as *const Producer<'static, Pair>);
            if BOOK.loan_open == 1 {
                p.__internal_update_write_cell();
                BOOK.loan_open = 2;
                BOOK.completed = BOOK.next - 1;
                return;
            }
            let v = BOOK.next;
            BOOK.next += 1;
            if which == 0 {
                p.store(pair(v));
                BOOK.completed = v;
            } else {
                let ptr = p.__internal_get_ptr_to_write_cell();
                ptr.write(pair(v));
                BOOK.loan_open = 1;
                BOOK.loans += 1;
            }
        }
    }

    fn do_store(two_step: bool) {
        writer_action(if two_step { 1 } else { 0 });
        unsafe {
            if BOOK.loan_open == 1 {
                writer_action(2);
            }
        }
    }

    /// a load must return a pair that was written in one piece, not older than the last store
    /// completed before the load began, not newer than the last store started, and not older
    /// than what this reader has already seen
    fn do_load() {
        unsafe {
            let floor = BOOK.completed;
            let v = atomic().load();
            // newest value that may legitimately be visible: everything started is published or
            // being published, except the value of a loan that is still unpublished when the load
            // returns (written into the write cell, never handed to readers so far)
            let ceil = if BOOK.loan_open == 1 { BOOK.next - 2 } else { BOOK.next - 1 };
            if BOOK.loan_open == 1 {
                BOOK.loads_during_loan += 1;
            }
            assert!(is_pair(v), "c12: torn read (mixture of two writes)");
            assert!(v[0] >= floor, "c12: load returned a value older than a store completed before it began");
            assert!(v[0] <= ceil, "c12: load returned a value that was never published");
            assert!(v[0] >= BOOK.last_seen, "c12: successive loads went back to an older value");
            BOOK.last_seen = v[0];
        }
    }

    pub fn hook_writer() {
        unsafe {
            if BOOK.in_inner == 1 {
                return;
            }
            BOOK.in_inner = 1;
            if BOOK.budget > 0 && kani::any::<bool>() {
                BOOK.budget -= 1;
                if BOOK.mid == 1 {
                    BOOK.writes_mid_load += 1;
                }
                writer_action(kani::any::<u8>() & 1);
            }
            BOOK.in_inner = 2;
        }
    }

    pub fn hook_reader() {
        unsafe {
            if BOOK.in_inner == 1 {
                return;
            }
            BOOK.in_inner = 1;
            if BOOK.budget > 0 && kani::any::<bool>() {
                BOOK.budget -= 1;
                if BOOK.mid == 1 {
                    BOOK.loads_mid_store += 1;
                }
                do_load();
            }
            BOOK.in_inner = 2;
        }
    }

    /// outer = reader (LOADS loads), inner = writer (up to STORES complete stores at any of the
    /// reader's scheduling points incl. the middle of its copy)
    pub fn reader_outer<const LOADS: usize, const STORES: usize>() {
        let a = UnrestrictedAtomic::<Pair>::new(pair(0));
        let p = a.acquire_producer().unwrap();
        unsafe {
            APTR = &a as *const _ as usize;
            PPTR = &p as *const _ as usize;
            BOOK.budget = STORES;
            verif_set_hook(hook_writer);
            let mut i = 0;
            while i < LOADS {
                BOOK.mid = 1;
                do_load();
                BOOK.mid = 2;
                hook_writer();
                i += 1;
            }
            verif_clear_hook();
            // close an open loan so that the harness ends in a quiescent state
            if BOOK.loan_open == 1 {
                writer_action(2);
            }
            do_load();
            assert!(BOOK.last_seen == BOOK.next - 1, "c12: final load does not return the last published value");
            kani::cover!(BOOK.writes_mid_load >= 2, "writer lapped the reader inside one load");
            kani::cover!(BOOK.loads_during_loan >= 1, "a load ran while a loan-style write was written but unpublished");
            kani::cover!(BOOK.last_seen >= 1 && BOOK.writes_mid_load >= 1, "reader observed a value stored during its load");
            assert!(SPLITS > 100, "harness: tear stub not reached");
        }
    }

    /// outer = writer (STORES stores), inner = reader (complete loads inside the writer's stores)
    pub fn writer_outer<const LOADS: usize, const STORES: usize>() {
        let a = UnrestrictedAtomic::<Pair>::new(pair(0));
        let p = a.acquire_producer().unwrap();
        unsafe {
            APTR = &a as *const _ as usize;
            PPTR = &p as *const _ as usize;
            BOOK.budget = LOADS;
            verif_set_hook(hook_reader);
            let mut i = 0;
            while i < STORES {
                BOOK.mid = 1;
                do_store(kani::any());
                BOOK.mid = 2;
                hook_reader();
                i += 1;
            }
            verif_clear_hook();
            do_load();
            assert!(BOOK.last_seen == STORES as u32, "c12: final load does not return the last store");
            kani::cover!(BOOK.loads_mid_store >= 1, "a load ran inside a store");
        }
    }

    /// two threads race for the producer: never both succeed
    pub static mut INNER_GOT: u8 = 2;
    pub fn hook_acquire() {
        unsafe {
            if BOOK.in_inner == 1 {
                return;
            }
            BOOK.in_inner = 1;
            if BOOK.budget > 0 && kani::any::<bool>() {
                BOOK.budget -= 1;
                let p = atomic().acquire_producer();
                if p.is_some() {
                    INNER_GOT = 1;
                    if kani::any() {
                        drop(p);
                        INNER_GOT = 2;
                    } else {
                        core::mem::forget(p);
                    }
                }
            }
            BOOK.in_inner = 2;
        }
    }

    proof_copy!(6, crate::c12::sched::split_copy, fn c12_s_reader_outer() { reader_outer::<2, 2>(); canaries(); });
    proof_copy!(6, crate::c12::sched::split_copy, fn c12_s_writer_outer() { writer_outer::<2, 1>(); canaries(); });
    proof_copy!(7, crate::c12::sched::split_copy, fn c12_s_reader_outer_deep() { reader_outer::<2, 3>(); canaries(); });
    proof_copy!(7, crate::c12::sched::split_copy, fn c12_s_writer_outer_deep() { writer_outer::<2, 2>(); canaries(); });

    proof!(6, fn c12_s_single_writer_race() {
        let a = UnrestrictedAtomic::<Pair>::new(pair(0));
        unsafe {
            APTR = &a as *const _ as usize;
            BOOK.budget = 2;
            verif_set_hook(hook_acquire);
            let p = a.acquire_producer();
            verif_clear_hook();
            if p.is_some() {
                assert!(INNER_GOT == 2, "c12: two producers exist at the same time");
            }
            kani::cover!(p.is_none(), "outer acquire lost the race");
            kani::cover!(p.is_some(), "outer acquire won the race");
        }
        canaries();
    });
}
