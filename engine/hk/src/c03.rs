//! c03 harnesses
