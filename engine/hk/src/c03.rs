//! C03 — SPSC channels are linearizable FIFOs conserving every element.
//!
//! (K) sequential refinement: symbolic histories of push/pop on the three queue types against a
//!     FIFO model (every fill level and ring phase is reached through the API).
//! (S, feature `sched`) schedule-symbolic harnesses over the instrumented atomics drop-in: one
//!     thread is preempted before any of its shared-memory operations (atomics *and* slot
//!     accesses); in the gap the other thread runs complete operations, chosen by the solver.

use crate::common::*;
use iceoryx2_bb_lock_free::spsc::index_queue::*;
use iceoryx2_bb_lock_free::spsc::queue::Queue as SpscQueue;
use iceoryx2_bb_lock_free::spsc::safely_overflowing_index_queue::*;

pub enum PushR {
    Ok,
    Full,
    Evicted(u64),
}

pub trait SpscLike {
    const CAP: usize;
    const OVERFLOW: bool;
    fn mk() -> Self;
    fn do_push(&self, v: u64) -> PushR;
    fn do_pop(&self) -> Option<u64>;
    fn q_len(&self) -> usize;
    fn q_empty(&self) -> bool;
    fn q_full(&self) -> bool;
    fn q_cap(&self) -> usize;
}

impl<const C: usize> SpscLike for FixedSizeIndexQueue<C> {
    const CAP: usize = C;
    const OVERFLOW: bool = false;
    fn mk() -> Self { Self::new() }
    fn do_push(&self, v: u64) -> PushR { if unsafe { self.push(v) } { PushR::Ok } else { PushR::Full } }
    fn do_pop(&self) -> Option<u64> { unsafe { self.pop() } }
    fn q_len(&self) -> usize { self.len() }
    fn q_empty(&self) -> bool { self.is_empty() }
    fn q_full(&self) -> bool { self.is_full() }
    fn q_cap(&self) -> usize { self.capacity() }
}

impl<const C: usize> SpscLike for FixedSizeSafelyOverflowingIndexQueue<C> {
    const CAP: usize = C;
    const OVERFLOW: bool = true;
    fn mk() -> Self { Self::new() }
    fn do_push(&self, v: u64) -> PushR { match unsafe { self.push(v) } { None => PushR::Ok, Some(e) => PushR::Evicted(e) } }
    fn do_pop(&self) -> Option<u64> { unsafe { self.pop() } }
    fn q_len(&self) -> usize { self.len() }
    fn q_empty(&self) -> bool { self.is_empty() }
    fn q_full(&self) -> bool { self.is_full() }
    fn q_cap(&self) -> usize { self.capacity() }
}

impl<const C: usize> SpscLike for SpscQueue<u64, C> {
    const CAP: usize = C;
    const OVERFLOW: bool = false;
    fn mk() -> Self { Self::new() }
    fn do_push(&self, v: u64) -> PushR { if unsafe { self.push(&v) } { PushR::Ok } else { PushR::Full } }
    fn do_pop(&self) -> Option<u64> { unsafe { self.pop() } }
    fn q_len(&self) -> usize { self.len() }
    fn q_empty(&self) -> bool { self.is_empty() }
    fn q_full(&self) -> bool { self.is_full() }
    fn q_cap(&self) -> usize { self.capacity() }
}

/// heap-backed (OwningPointer) flavours, capacity chosen at run time
pub struct OwnIq(IndexQueue);
impl SpscLike for OwnIq {
    const CAP: usize = 2;
    const OVERFLOW: bool = false;
    fn mk() -> Self { OwnIq(IndexQueue::new(2)) }
    fn do_push(&self, v: u64) -> PushR { if unsafe { self.0.push(v) } { PushR::Ok } else { PushR::Full } }
    fn do_pop(&self) -> Option<u64> { unsafe { self.0.pop() } }
    fn q_len(&self) -> usize { self.0.len() }
    fn q_empty(&self) -> bool { self.0.is_empty() }
    fn q_full(&self) -> bool { self.0.is_full() }
    fn q_cap(&self) -> usize { self.0.capacity() }
}
pub struct OwnSoiq(SafelyOverflowingIndexQueue);
impl SpscLike for OwnSoiq {
    const CAP: usize = 2;
    const OVERFLOW: bool = true;
    fn mk() -> Self { OwnSoiq(SafelyOverflowingIndexQueue::new(2)) }
    fn do_push(&self, v: u64) -> PushR { match unsafe { self.0.push(v) } { None => PushR::Ok, Some(e) => PushR::Evicted(e) } }
    fn do_pop(&self) -> Option<u64> { unsafe { self.0.pop() } }
    fn q_len(&self) -> usize { self.0.len() }
    fn q_empty(&self) -> bool { self.0.is_empty() }
    fn q_full(&self) -> bool { self.0.is_full() }
    fn q_cap(&self) -> usize { self.0.capacity() }
}

/// Sequential history: STEPS symbolic push/pop operations with symbolic values against a FIFO.
fn seq_history<Q: SpscLike, const CAP: usize, const STEPS: usize>() {
    let q = Q::mk();
    let mut m = Fifo::<CAP>::new();
    let mut wraps = 0usize;
    let mut evicted = false;
    let mut refused = false;
    let mut step = 0;
    while step < STEPS {
        if kani::any() {
            let v: u64 = kani::any();
            match q.do_push(v) {
                PushR::Ok => {
                    assert!(m.len < CAP, "c03: push succeeded on a full queue without eviction");
                    m.push(v);
                }
                PushR::Full => {
                    assert!(!Q::OVERFLOW);
                    assert!(m.len == CAP, "c03: push refused although the queue is not full");
                    refused = true;
                }
                PushR::Evicted(e) => {
                    assert!(Q::OVERFLOW);
                    assert!(m.len == CAP, "c03: eviction although the queue is not full");
                    assert!(m.pop() == Some(e), "c03: evicted element is not the oldest");
                    m.push(v);
                    evicted = true;
                }
            }
            wraps += 1;
        } else {
            let r = q.do_pop();
            assert!(r == m.pop(), "c03: pop differs from the FIFO model");
        }
        assert!(q.q_len() == m.len);
        assert!(q.q_empty() == (m.len == 0));
        assert!(q.q_full() == (m.len == CAP));
        assert!(q.q_cap() == CAP);
        step += 1;
    }
    // drain: nothing lost, nothing invented
    let mut k = 0;
    while k <= CAP {
        let r = q.do_pop();
        assert!(r == m.pop(), "c03: final content differs from the FIFO model");
        k += 1;
    }
    kani::cover!(wraps > CAP + 1, "ring wrapped around");
    kani::cover!(evicted || refused, "full queue hit");
}

proof!(9, fn c03_seq_index_queue() { seq_history::<FixedSizeIndexQueue<2>, 2, 6>(); canaries(); });
proof!(9, fn c03_seq_overflow_queue() { seq_history::<FixedSizeSafelyOverflowingIndexQueue<2>, 2, 6>(); canaries(); });
proof!(9, fn c03_seq_spsc_queue() { seq_history::<SpscQueue<u64, 2>, 2, 6>(); canaries(); });
proof!(9, fn c03_seq_index_queue_owning() { seq_history::<OwnIq, 2, 5>(); canaries(); });
proof!(9, fn c03_seq_overflow_queue_owning() { seq_history::<OwnSoiq, 2, 5>(); canaries(); });
proof!(11, fn c03_seq_index_queue_cap3() { seq_history::<FixedSizeIndexQueue<3>, 3, 8>(); canaries(); });
proof!(11, fn c03_seq_overflow_queue_cap3() { seq_history::<FixedSizeSafelyOverflowingIndexQueue<3>, 3, 8>(); canaries(); });
proof!(11, fn c03_seq_spsc_queue_cap3() { seq_history::<SpscQueue<u64, 3>, 3, 8>(); canaries(); });
proof!(9, fn c03_seq_index_queue_cap1() { seq_history::<FixedSizeIndexQueue<1>, 1, 5>(); canaries(); });
proof!(9, fn c03_seq_overflow_queue_cap1() { seq_history::<FixedSizeSafelyOverflowingIndexQueue<1>, 1, 5>(); canaries(); });

/// producer / consumer hand-over: at most one producer and one consumer handle at a time; a
/// dropped handle can be re-acquired and continues on the same state.
proof!(6, fn c03_handover() {
    let q = FixedSizeIndexQueue::<2>::new();
    let v: u64 = kani::any();
    {
        let mut p = q.acquire_producer().unwrap();
        assert!(q.acquire_producer().is_none(), "c03: two producers at once");
        assert!(p.push(v));
    }
    let mut p2 = q.acquire_producer().unwrap();
    assert!(p2.push(v.wrapping_add(1)));
    {
        let mut c = q.acquire_consumer().unwrap();
        assert!(q.acquire_consumer().is_none(), "c03: two consumers at once");
        assert!(c.pop() == Some(v));
    }
    let mut c2 = q.acquire_consumer().unwrap();
    assert!(c2.pop() == Some(v.wrapping_add(1)));
    assert!(c2.pop().is_none());
    let o = FixedSizeSafelyOverflowingIndexQueue::<1>::new();
    {
        let mut p = o.acquire_producer().unwrap();
        assert!(o.acquire_producer().is_none());
        assert!(p.push(v).is_none());
        assert!(p.push(7) == Some(v));
    }
    assert!(o.acquire_producer().is_some());
    let mut c = o.acquire_consumer().unwrap();
    assert!(o.acquire_consumer().is_none());
    assert!(c.pop() == Some(7));
    canaries();
});

// ==========================================================================================
// engine S: schedule-symbolic harnesses (nested preemption)
// ==========================================================================================

#[cfg(feature = "sched")]
pub mod sched {
    use super::*;
    use iceoryx2_pal_concurrency_sync::verif_atomic::{verif_clear_hook, verif_set_hook};

    pub const MAXV: usize = 8;

    /// bookkeeping shared between the outer thread body and the hook (inner thread)
    pub struct Book {
        pub next_val: u64,          // next value to push (values are 1, 2, 3, ...)
        pub pushed_ok: usize,       // pushes that entered the queue
        pub refused: [bool; MAXV],  // value was refused (never entered)
        pub popped: [u64; MAXV],
        pub npop: usize,
        pub evicted: [u64; MAXV],
        pub nev: usize,
        pub inner_budget: usize,    // complete inner operations still allowed
        pub in_inner: u8,           // 1 = inside an inner operation, 2 = not
        pub inner_ran_mid_op: bool, // witness: an inner op ran while an outer op was in flight
        pub outer_in_flight: u8,    // 1 = outer op between its first and last shared op
        pub empty_pops: usize,
        pub bad_empty: bool,
        pub bad_refuse: bool,
        pub bad_evict: bool,
    }

    pub static mut BOOK: Book = Book {
        next_val: 1, pushed_ok: 0, refused: [false; MAXV], popped: [0; MAXV], npop: 0, evicted: [0; MAXV], nev: 0,
        inner_budget: 0, in_inner: 2, inner_ran_mid_op: false, outer_in_flight: 2, empty_pops: 0, bad_empty: false,
        bad_refuse: false, bad_evict: false,
    };

    pub fn model_len(b: &Book) -> usize {
        b.pushed_ok - b.npop - b.nev
    }

    pub fn push_op<Q: SpscLike>(q: &Q) {
        unsafe {
            let b = &mut BOOK;
            let v = b.next_val;
            b.next_val += 1;
            let len_at_start = model_len(b);
            // the oldest element at the start of the call: values leave in push order, so it is the
            // (popped + evicted + 1)-th value that was not refused
            let gone_at_start = b.npop + b.nev;
            let mut oldest_at_start = 0u64;
            let mut seen_ok = 0;
            let mut w = 1;
            while w < MAXV {
                if (w as u64) < v && !b.refused[w] {
                    if seen_ok == gone_at_start && oldest_at_start == 0 {
                        oldest_at_start = w as u64;
                    }
                    seen_ok += 1;
                }
                w += 1;
            }
            match q.do_push(v) {
                PushR::Ok => b.pushed_ok += 1,
                PushR::Full => {
                    b.refused[v as usize] = true;
                    // a refusal is legitimate only if the queue was full at some instant of the
                    // call; while a push is in flight the other side can only pop, so the
                    // longest it ever was is its length at the start
                    if len_at_start < Q::CAP {
                        b.bad_refuse = true;
                    }
                }
                PushR::Evicted(e) => {
                    // an eviction is legitimate only if the queue was full at the start of the call and
                    // nothing was popped before the push took effect: while a push is in flight the other
                    // side can only pop, and after a pop the queue is no longer full.  The evicted value
                    // is then the oldest one at the start.
                    // (the identity is only checked when the push is the preempted operation: when it runs
                    // inside a pop that is in flight, that pop may already have taken the oldest element
                    // without being recorded yet)
                    if len_at_start < Q::CAP || (b.in_inner != 1 && e != oldest_at_start) {
                        b.bad_evict = true;
                    }
                    b.pushed_ok += 1;
                    b.evicted[b.nev] = e;
                    b.nev += 1;
                }
            }
        }
    }

    pub fn pop_op<Q: SpscLike>(q: &Q) {
        unsafe {
            let b = &mut BOOK;
            let len_at_start = model_len(b);
            match q.do_pop() {
                Some(v) => {
                    b.popped[b.npop] = v;
                    b.npop += 1;
                }
                None => {
                    b.empty_pops += 1;
                    // while a pop is in flight the other side can only push: the shortest the
                    // queue ever was is its length at the start
                    if len_at_start != 0 {
                        b.bad_empty = true;
                    }
                }
            }
        }
    }

    /// conservation + order + bounds, evaluated after both threads are done
    pub fn final_checks<Q: SpscLike>(q: &Q) {
        unsafe {
            verif_clear_hook();
            let b = &mut BOOK;
            let mut rest = [0u64; MAXV];
            let mut nrest = 0;
            let mut k = 0;
            while k <= Q::CAP {
                if let Some(v) = q.do_pop() {
                    rest[nrest] = v;
                    nrest += 1;
                }
                k += 1;
            }
            assert!(q.do_pop().is_none(), "c03: more elements in the queue than its capacity");
            assert!(nrest <= Q::CAP);
            let pushed = (b.next_val - 1) as usize;
            let mut seen = [0u8; MAXV];
            let mut i = 0;
            while i < MAXV {
                if i < b.npop {
                    assert!(b.popped[i] >= 1 && (b.popped[i] as usize) <= pushed, "c03: popped a value that was never pushed");
                    seen[b.popped[i] as usize] += 1;
                }
                if i < b.nev {
                    assert!(b.evicted[i] >= 1 && (b.evicted[i] as usize) <= pushed, "c03: evicted a value that was never pushed");
                    seen[b.evicted[i] as usize] += 1;
                }
                if i < nrest {
                    assert!(rest[i] >= 1 && (rest[i] as usize) <= pushed, "c03: queue contains a value that was never pushed");
                    seen[rest[i] as usize] += 1;
                }
                i += 1;
            }
            let mut v = 1;
            while v < MAXV {
                if v <= pushed {
                    if b.refused[v] {
                        assert!(seen[v] == 0, "c03: a refused value showed up");
                    } else {
                        assert!(seen[v] == 1, "c03: a value was lost or duplicated");
                    }
                }
                v += 1;
            }
            // order: the consumer sees values in push order; what is left is newer than anything popped
            let mut i = 1;
            while i < MAXV {
                if i < b.npop {
                    assert!(b.popped[i - 1] < b.popped[i], "c03: consumer saw values out of push order");
                }
                if i < nrest {
                    assert!(rest[i - 1] < rest[i], "c03: remaining content out of push order");
                }
                if i < b.nev {
                    assert!(b.evicted[i - 1] < b.evicted[i], "c03: evictions out of push order");
                }
                i += 1;
            }
            if b.npop > 0 && nrest > 0 {
                assert!(b.popped[b.npop - 1] < rest[0], "c03: consumer overtook the queue content");
            }
            assert!(!b.bad_refuse, "c03: push refused although the queue was never full during the call");
            assert!(!b.bad_evict, "c03: push evicted an element although the queue was not full, or not the oldest one");
            assert!(!b.bad_empty, "c03: pop returned None although the queue was never empty during the call");
        }
    }

    pub static mut QPTR: usize = 1;

    pub fn hook_inner_pop<Q: SpscLike>() {
        unsafe {
            let b = &mut BOOK;
            if b.in_inner == 1 {
                return;
            }
            b.in_inner = 1;
            if b.inner_budget > 0 && kani::any::<bool>() {
                b.inner_budget -= 1;
                if b.outer_in_flight == 1 {
                    b.inner_ran_mid_op = true;
                }
                pop_op::<Q>(&*(QPTR as *const Q));
            }
            b.in_inner = 2;
        }
    }

    pub fn hook_inner_push<Q: SpscLike>() {
        unsafe {
            let b = &mut BOOK;
            if b.in_inner == 1 {
                return;
            }
            b.in_inner = 1;
            if b.inner_budget > 0 && kani::any::<bool>() {
                b.inner_budget -= 1;
                if b.outer_in_flight == 1 {
                    b.inner_ran_mid_op = true;
                }
                push_op::<Q>(&*(QPTR as *const Q));
            }
            b.in_inner = 2;
        }
    }

    /// outer = producer doing P pushes; at each of its shared-memory operations up to C complete
    /// pops of the consumer may run.  PRE elements are pushed before the race starts.
    pub fn producer_outer<Q: SpscLike, const PRE: usize, const P: usize, const C: usize>() {
        let q = Q::mk();
        unsafe {
            QPTR = &q as *const Q as usize;
            let mut i = 0;
            while i < PRE {
                push_op(&q);
                i += 1;
            }
            BOOK.inner_budget = C;
            verif_set_hook(hook_inner_pop::<Q>);
            let mut i = 0;
            while i < P {
                BOOK.outer_in_flight = 1;
                push_op(&q);
                BOOK.outer_in_flight = 2;
                // between two outer operations
                hook_inner_pop::<Q>();
                i += 1;
            }
            final_checks(&q);
            kani::cover!(BOOK.inner_ran_mid_op && BOOK.npop > 0, "a pop ran inside a push and returned a value");
            if Q::OVERFLOW {
                kani::cover!(BOOK.nev > 0 && BOOK.inner_ran_mid_op, "eviction raced with a pop");
            } else {
                kani::cover!(BOOK.inner_ran_mid_op && BOOK.pushed_ok == PRE + P, "all pushes accepted thanks to concurrent pops");
            }
        }
    }

    /// outer = consumer doing C pops; at each of its shared-memory operations up to P complete
    /// pushes of the producer may run.
    pub fn consumer_outer<Q: SpscLike, const PRE: usize, const P: usize, const C: usize>() {
        let q = Q::mk();
        unsafe {
            QPTR = &q as *const Q as usize;
            let mut i = 0;
            while i < PRE {
                push_op(&q);
                i += 1;
            }
            BOOK.inner_budget = P;
            verif_set_hook(hook_inner_push::<Q>);
            let mut i = 0;
            while i < C {
                BOOK.outer_in_flight = 1;
                pop_op(&q);
                BOOK.outer_in_flight = 2;
                hook_inner_push::<Q>();
                i += 1;
            }
            final_checks(&q);
            kani::cover!(BOOK.inner_ran_mid_op && BOOK.npop == C, "pushes ran inside pops and every pop returned a value");
            if Q::OVERFLOW {
                kani::cover!(BOOK.nev > 0 && BOOK.inner_ran_mid_op && BOOK.npop > 0, "an evicting push ran inside a pop");
            }
        }
    }

    // ---- quick tier: capacity 2 ------------------------------------------------------------
    proof!(10, fn c03_s_overflow_producer_outer() { producer_outer::<FixedSizeSafelyOverflowingIndexQueue<2>, 1, 2, 1>(); canaries(); });
    proof!(10, fn c03_s_overflow_consumer_outer() { consumer_outer::<FixedSizeSafelyOverflowingIndexQueue<2>, 2, 2, 1>(); canaries(); });
    proof!(10, fn c03_s_index_producer_outer() { producer_outer::<FixedSizeIndexQueue<2>, 1, 2, 1>(); canaries(); });
    proof!(10, fn c03_s_index_consumer_outer() { consumer_outer::<FixedSizeIndexQueue<2>, 1, 2, 2>(); canaries(); });
    proof!(10, fn c03_s_spsc_producer_outer() { producer_outer::<SpscQueue<u64, 2>, 1, 2, 1>(); canaries(); });
    proof!(10, fn c03_s_spsc_consumer_outer() { consumer_outer::<SpscQueue<u64, 2>, 1, 2, 2>(); canaries(); });

    // ---- thorough tier ---------------------------------------------------------------------
    proof!(10, fn c03_s_overflow_producer_outer_deep() { producer_outer::<FixedSizeSafelyOverflowingIndexQueue<2>, 1, 3, 2>(); canaries(); });
    proof!(10, fn c03_s_overflow_consumer_outer_deep() { consumer_outer::<FixedSizeSafelyOverflowingIndexQueue<2>, 2, 3, 2>(); canaries(); });
    proof!(10, fn c03_s_overflow_cap1_producer_outer() { producer_outer::<FixedSizeSafelyOverflowingIndexQueue<1>, 1, 3, 2>(); canaries(); });
    proof!(10, fn c03_s_overflow_cap1_consumer_outer() { consumer_outer::<FixedSizeSafelyOverflowingIndexQueue<1>, 1, 3, 2>(); canaries(); });
    proof!(10, fn c03_s_index_producer_outer_deep() { producer_outer::<FixedSizeIndexQueue<2>, 2, 3, 2>(); canaries(); });
    proof!(10, fn c03_s_index_consumer_outer_deep() { consumer_outer::<FixedSizeIndexQueue<2>, 1, 3, 3>(); canaries(); });
    proof!(10, fn c03_s_spsc_producer_outer_deep() { producer_outer::<SpscQueue<u64, 2>, 2, 3, 2>(); canaries(); });
    proof!(10, fn c03_s_spsc_consumer_outer_deep() { consumer_outer::<SpscQueue<u64, 2>, 1, 3, 3>(); canaries(); });
}
