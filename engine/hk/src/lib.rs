//! Kani harness crate over the real iceoryx2 crates (path dependencies into /repo).
//!
//! Engine K: every `#[kani::proof]` below symbolically executes the *real* functions of
//! iceoryx2-bb / iceoryx2-cal and lets CBMC decide the assertions for all values of the
//! `kani::any()` inputs inside the stated bounds.  Nothing in this crate re-implements code
//! under test; the only models are the tiny reference oracles in `common`.
#![allow(clippy::all)]
#![allow(dead_code)]
#![allow(unused_imports)]
#![allow(static_mut_refs)]
#![allow(unused_unsafe)]

extern crate alloc;
extern crate iceoryx2_bb_loggers; // provides __internal_default_logger for native playback

#[macro_use]
pub mod common;

#[cfg(kani)]
mod c03;
#[cfg(kani)]
mod c05;
#[cfg(kani)]
mod c09;
#[cfg(kani)]
mod c10;
#[cfg(kani)]
mod c12;
#[cfg(kani)]
mod c14;
#[cfg(kani)]
mod c15;
#[cfg(kani)]
mod c16;
#[cfg(kani)]
mod c19;

#[cfg(all(kani, feature = "cal"))]
mod cal;
#[cfg(all(kani, feature = "iox2"))]
mod c19svc;
