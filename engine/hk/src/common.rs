//! Shared harness infrastructure: the three stubs (DESIGN §4.3), the `proof!` macro that applies
//! them, constant canaries (DESIGN §4.4) and small array-backed reference models (the oracles).

use alloc::string::String;

// ---- stubs -------------------------------------------------------------------------------
// Logging / message formatting only.  None of the properties is about log text.

pub fn empty_format(_a: core::fmt::Arguments<'_>) -> String {
    String::new()
}

pub fn no_log(_l: iceoryx2_log::LogLevel, _o: core::fmt::Arguments, _a: core::fmt::Arguments) {}

pub fn no_escape(_b: &[u8]) -> String {
    String::new()
}

/// Reference UTF-8 validator (Unicode 15, table 3-7 "well-formed UTF-8 byte sequences") standing in
/// for `core::str::from_utf8`.  std's implementation reads the input word-wise after an
/// `align_offset` on the (symbolic) address, which costs CBMC more than everything under test;
/// std is not under test.  The error payload (`valid_up_to`, `error_len`) is NOT modelled - the
/// code under test only asks `is_err()`.
pub fn utf8_model(v: &[u8]) -> Result<&str, core::str::Utf8Error> {
    let n = v.len();
    let mut i = 0;
    let mut ok = true;
    while i < n {
        let b = v[i];
        if b < 0x80 {
            i += 1;
            continue;
        }
        let (len, lo, hi): (usize, u8, u8) = match b {
            0xC2..=0xDF => (2, 0x80, 0xBF),
            0xE0 => (3, 0xA0, 0xBF),
            0xE1..=0xEC | 0xEE..=0xEF => (3, 0x80, 0xBF),
            0xED => (3, 0x80, 0x9F),
            0xF0 => (4, 0x90, 0xBF),
            0xF1..=0xF3 => (4, 0x80, 0xBF),
            0xF4 => (4, 0x80, 0x8F),
            _ => {
                ok = false;
                break;
            }
        };
        if i + len > n || v[i + 1] < lo || v[i + 1] > hi {
            ok = false;
            break;
        }
        if len >= 3 && (v[i + 2] < 0x80 || v[i + 2] > 0xBF) {
            ok = false;
            break;
        }
        if len == 4 && (v[i + 3] < 0x80 || v[i + 3] > 0xBF) {
            ok = false;
            break;
        }
        i += len;
    }
    if ok {
        Ok(unsafe { core::str::from_utf8_unchecked(v) })
    } else {
        // an error value of the real type, obtained from a function that is not stubbed
        let mut bad = [0xFFu8];
        Err(core::str::from_utf8_mut(&mut bad).err().unwrap())
    }
}

/// `proof!(UNWIND, fn name() { .. })` expands to a Kani proof harness with the three
/// logging/formatting stubs applied and the given global unwind bound.
#[macro_export]
macro_rules! proof {
    ($unwind:literal, fn $name:ident() $body:block) => {
        #[kani::proof]
        #[kani::unwind($unwind)]
        #[kani::stub(iceoryx2_log::__internal_print_log_msg, crate::common::no_log)]
        #[kani::stub(alloc::fmt::format, crate::common::empty_format)]
        #[kani::stub(iceoryx2_bb_container::string::as_escaped_string, crate::common::no_escape)]
        #[kani::stub(core::str::from_utf8, crate::common::utf8_model)]
        pub fn $name() $body
    };
}

/// Same, but additionally replaces `core::ptr::copy_nonoverlapping` by a byte loop with a
/// scheduling point in the middle (C12 tear model) or a plain byte loop (C10).
#[macro_export]
macro_rules! proof_copy {
    ($unwind:literal, $copy:path, fn $name:ident() $body:block) => {
        #[kani::proof]
        #[kani::unwind($unwind)]
        #[kani::stub(iceoryx2_log::__internal_print_log_msg, crate::common::no_log)]
        #[kani::stub(alloc::fmt::format, crate::common::empty_format)]
        #[kani::stub(iceoryx2_bb_container::string::as_escaped_string, crate::common::no_escape)]
        #[kani::stub(core::str::from_utf8, crate::common::utf8_model)]
        #[kani::stub(core::ptr::copy_nonoverlapping, $copy)]
        pub fn $name() $body
    };
}

// ---- constant canaries -------------------------------------------------------------------
// Kani 0.68 was observed to alias a zero-initialised mutable static of the harness crate with a
// zero constant of the code under test (DESIGN §9).  Every harness ends with `canaries()`;
// a failing canary is an *encoding* defect (driver exit 2), never a verdict.  No static in this
// crate has an all-zero initialiser.

#[inline(never)]
pub fn canaries() {
    let v1: alloc::vec::Vec<u64> = alloc::vec::Vec::new();
    let v2: alloc::vec::Vec<u8> = alloc::vec::Vec::new();
    let v3: alloc::vec::Vec<usize> = alloc::vec::Vec::new();
    assert!(v1.capacity() == 0, "canary: Vec<u64>::new().capacity()");
    assert!(v2.capacity() == 0, "canary: Vec<u8>::new().capacity()");
    assert!(v3.capacity() == 0, "canary: Vec<usize>::new().capacity()");
    let n: Option<usize> = None;
    assert!(core::hint::black_box(n).is_none(), "canary: Option::None");
    let z: usize = 0;
    assert!(core::hint::black_box(z) == 0, "canary: zero usize");
}

// ---- reference models ----------------------------------------------------------------------

/// Array-backed FIFO of `u64` with capacity `N` (oracle for queues).
#[derive(Clone, Copy)]
pub struct Fifo<const N: usize> {
    pub d: [u64; N],
    pub len: usize,
}

impl<const N: usize> Fifo<N> {
    pub fn new() -> Self {
        Self { d: [0; N], len: 0 }
    }
    pub fn push(&mut self, v: u64) {
        assert!(self.len < N);
        self.d[self.len] = v;
        self.len += 1;
    }
    pub fn pop(&mut self) -> Option<u64> {
        if self.len == 0 {
            return None;
        }
        let r = self.d[0];
        let mut i = 1;
        while i < N {
            if i < self.len {
                self.d[i - 1] = self.d[i];
            }
            i += 1;
        }
        self.len -= 1;
        Some(r)
    }
    pub fn contains(&self, v: u64) -> bool {
        let mut i = 0;
        let mut r = false;
        while i < N {
            if i < self.len && self.d[i] == v {
                r = true;
            }
            i += 1;
        }
        r
    }
}

/// Small set of indices `< 32` as a bit mask (oracle for index sets).
#[derive(Clone, Copy)]
pub struct IdxSet(pub u32);

impl IdxSet {
    pub fn new() -> Self {
        IdxSet(0)
    }
    pub fn has(&self, i: u32) -> bool {
        i < 32 && (self.0 >> i) & 1 == 1
    }
    pub fn add(&mut self, i: u32) {
        self.0 |= 1 << i
    }
    pub fn del(&mut self, i: u32) {
        self.0 &= !(1 << i)
    }
    pub fn len(&self) -> u32 {
        self.0.count_ones()
    }
}

/// Aligned backing block whose start can be shifted by a symbolic misalignment.
#[repr(C, align(64))]
pub struct Block<const N: usize>(pub [u8; N]);

impl<const N: usize> Block<N> {
    pub fn new() -> Self {
        Block([0xA5; N])
    }
}

// ---- drop tracking ---------------------------------------------------------------------------
// `Tracked` elements count creations and drops in two global counters (cheap for the solver: no
// symbolically indexed table).  After every step of a history harness the number of live
// elements must equal what the model says is stored (`live()`): a double drop, a drop of a
// refused / overwritten element that did not happen, or a leak all show up as a mismatch.
// The id (creation number) makes elements distinguishable, so a container that returns the
// wrong one of two equal-valued elements is caught as well.

pub mod track {
    const BASE: u32 = 1000;
    pub static mut CREATED: u32 = BASE;
    pub static mut DROPPED: u32 = BASE;

    #[derive(Debug)]
    pub struct Tracked {
        pub id: u8,
        pub val: u8,
        canary: u8,
    }

    impl Tracked {
        pub fn new(val: u8) -> Self {
            unsafe {
                CREATED += 1;
                let id = (CREATED - BASE) as u8;
                Tracked { id, val, canary: id ^ 0x5A }
            }
        }
        /// checked access: the element must not have been dropped (drop scrambles the canary of
        /// the instance it runs on) and must not be uninitialised garbage
        pub fn val(&self) -> u8 {
            assert!(self.canary == self.id ^ 0x5A, "c16: element accessed after its drop (or never initialised)");
            self.val
        }
    }

    impl Clone for Tracked {
        fn clone(&self) -> Self {
            Tracked::new(self.val())
        }
    }

    impl PartialEq for Tracked {
        fn eq(&self, o: &Self) -> bool {
            self.val() == o.val()
        }
    }
    impl Eq for Tracked {}

    impl Drop for Tracked {
        fn drop(&mut self) {
            unsafe {
                assert!(self.canary == self.id ^ 0x5A, "c16: element dropped twice (or never created)");
                self.canary = 0;
                DROPPED += 1;
                assert!(DROPPED <= CREATED, "c16: more drops than creations");
            }
        }
    }

    /// id the next created element will get
    pub fn next_id() -> u8 {
        unsafe { (CREATED - BASE + 1) as u8 }
    }

    /// number of elements created and not yet dropped
    pub fn live() -> usize {
        unsafe { (CREATED - DROPPED) as usize }
    }

    /// every element created so far has been dropped exactly once
    pub fn assert_all_dropped() {
        assert!(live() == 0, "c16: element leaked (never dropped) or dropped twice");
    }
}
