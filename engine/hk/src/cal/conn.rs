//! Zero-copy connection over `KStorage`: the real `zero_copy_connection::common` code
//! (Builder::create_sender/create_receiver, reserve_port, remove_state, cleanup_shared_memory,
//! remove_port, try_send, receive, release, reclaim, acquire_used_offsets, Drop).
//!
//! C13 lifecycle harnesses, and the connection-level oracles of C03 (no offset lost or
//! duplicated, release never fails), C01 (order, documented loss only), C02 (conservation /
//! no reuse while referenced), C08 (per-connection limits enforced) and C11 (channel separation).

use super::kstorage::*;
use crate::common::*;
use iceoryx2_bb_container::semantic_string::SemanticString;
use iceoryx2_bb_system_types::file_name::FileName;
use iceoryx2_cal::named_concept::{NamedConceptBuilder, NamedConceptMgmt};
use iceoryx2_cal::shm_allocator::PointerOffset;
use iceoryx2_cal::zero_copy_connection::common::details::{Connection, SharedManagementData};
use iceoryx2_cal::zero_copy_connection::*;

pub type Conn = Connection<KStorage<SharedManagementData>>;
type B = <Conn as ZeroCopyConnection>::Builder;

#[derive(Clone, Copy)]
pub struct Params {
    pub buffer: usize,
    pub borrow: usize,
    pub overflow: bool,
    pub chunks: usize,
    pub segments: u8,
    pub channels: usize,
}

pub const BASE: Params = Params { buffer: 1, borrow: 1, overflow: true, chunks: 1, segments: 1, channels: 1 };

pub fn name() -> FileName {
    unsafe { FileName::new_unchecked(b"c") }
}

pub fn builder(p: Params) -> B {
    B::new(&name())
        .buffer_size(p.buffer)
        .receiver_max_borrowed_chunks_per_channel(p.borrow)
        .enable_safe_overflow(p.overflow)
        .number_of_chunks_per_segment(p.chunks)
        .max_supported_shared_memory_segments(p.segments)
        .number_of_channels(p.channels)
}

fn destroyed() -> u32 {
    unsafe { DESTROY_COUNT - 100 }
}
fn owned() -> u32 {
    unsafe { OWNERSHIP_ACQUIRED - 100 }
}
fn exists() -> bool {
    unsafe { REG_STATE == 1 }
}

// ==========================================================================================
// C13 — lifecycle
// ==========================================================================================

/// a second attach of either role is refused and disturbs nothing; whichever side detaches last
/// destroys the resource exactly once (never earlier), acquiring ownership exactly once
proof!(6, fn c13_second_attach_and_drop_order() {
    let sender = builder(BASE).create_sender().unwrap();
    assert!(!sender.is_connected());
    let receiver = builder(BASE).create_receiver().unwrap();
    assert!(sender.is_connected() && receiver.is_connected());
    assert!(builder(BASE).create_sender().err() == Some(ZeroCopyCreationError::AnotherInstanceIsAlreadyConnected),
        "c13: a second sender attached");
    assert!(builder(BASE).create_receiver().err() == Some(ZeroCopyCreationError::AnotherInstanceIsAlreadyConnected),
        "c13: a second receiver attached");
    assert!(sender.is_connected() && receiver.is_connected(), "c13: refused attach disturbed the attached sides");
    assert!(destroyed() == 0 && owned() == 0 && exists());
    let sender_first: bool = kani::any();
    if sender_first {
        drop(sender);
        assert!(destroyed() == 0 && owned() == 0 && exists(), "c13: resource destroyed while the receiver is attached");
        assert!(!receiver.is_connected());
        drop(receiver);
    } else {
        drop(receiver);
        assert!(destroyed() == 0 && owned() == 0 && exists(), "c13: resource destroyed while the sender is attached");
        assert!(!sender.is_connected());
        drop(sender);
    }
    assert!(destroyed() == 1 && !exists(), "c13: resource not destroyed exactly once by the last detach");
    assert!(owned() == 1, "c13: ownership not acquired exactly once");
    kani::cover!(sender_first, "sender detached first");
    kani::cover!(!sender_first, "receiver detached first");
    canaries();
});

/// one role alone: create + drop destroys once; afterwards the same name can be created afresh
proof!(6, fn c13_single_role_and_recreate() {
    let recv_first: bool = kani::any();
    if recv_first {
        let r = builder(BASE).create_receiver().unwrap();
        assert!(!r.is_connected());
        drop(r);
    } else {
        let s = builder(BASE).create_sender().unwrap();
        drop(s);
    }
    assert!(destroyed() == 1 && owned() == 1 && !exists(), "c13: lone role did not destroy the resource on detach");
    let s = builder(BASE).create_sender();
    assert!(s.is_ok() && exists(), "c13: name not usable again after teardown");
    drop(s);
    assert!(destroyed() == 2);
    canaries();
});

/// attaching with one mismatching parameter is refused with the specific error, the attached
/// side and the resource are left untouched, and a matching attach still works afterwards
proof!(6, fn c13_mismatching_attach() {
    let sender = builder(BASE).create_sender().unwrap();
    let which: u8 = kani::any();
    kani::assume(which < 6);
    let mut p = BASE;
    let expected = match which {
        0 => { p.buffer = 2; ZeroCopyCreationError::IncompatibleBufferSize }
        1 => { p.borrow = 2; ZeroCopyCreationError::IncompatibleMaxBorrowedSamplesPerChannelSetting }
        2 => { p.overflow = false; ZeroCopyCreationError::IncompatibleOverflowSetting }
        3 => { p.chunks = 2; ZeroCopyCreationError::IncompatibleNumberOfSamples }
        4 => { p.segments = 2; ZeroCopyCreationError::IncompatibleNumberOfSegments }
        _ => { p.channels = 2; ZeroCopyCreationError::IncompatibleNumberOfChannels }
    };
    let same_role: bool = kani::any();
    if same_role {
        // a second sender - mismatching or not - is refused because the role is taken, and it
        // must not touch the role bit of the sender that is attached
        let r = builder(p).create_sender();
        assert!(r.err() == Some(ZeroCopyCreationError::AnotherInstanceIsAlreadyConnected),
            "c13: second (mismatching) attach of an attached role not refused as already connected");
    } else {
        let r = builder(p).create_receiver();
        assert!(r.err() == Some(expected), "c13: mismatching attach not refused with the matching error");
    }
    assert!(destroyed() == 0 && owned() == 0 && exists(), "c13: refused mismatching attach destroyed the resource");
    assert!(!sender.is_connected(), "c13: refused mismatching attach left its role registered");
    // the attached side still works: a matching receiver can attach and gets what was sent
    let receiver = builder(BASE).create_receiver();
    assert!(receiver.is_ok(), "c13: matching attach refused after a mismatching one");
    assert!(sender.is_connected());
    drop(receiver);
    drop(sender);
    assert!(destroyed() == 1 && owned() == 1);
    canaries();
});

/// forced removal on behalf of a dead peer counts as that peer's detach: the survivor's later
/// drop (or the forced removal itself, if it comes last) destroys the resource exactly once
proof!(6, fn c13_forced_removal() {
    let sender = builder(BASE).create_sender().unwrap();
    let receiver = builder(BASE).create_receiver().unwrap();
    let cfg = <Conn as NamedConceptMgmt>::Configuration::default();
    let dead_is_receiver: bool = kani::any();
    let survivor_first: bool = kani::any();
    if dead_is_receiver {
        core::mem::forget(receiver); // the process died: no Drop runs
        if survivor_first {
            drop(sender);
            assert!(destroyed() == 0 && exists(), "c13: resource destroyed although the dead peer is still registered");
            assert!(unsafe { Conn::remove_receiver(&name(), &cfg) }.is_ok());
        } else {
            assert!(unsafe { Conn::remove_receiver(&name(), &cfg) }.is_ok());
            assert!(destroyed() == 0 && exists(), "c13: forced removal destroyed the resource under the survivor");
            assert!(!sender.is_connected());
            assert!(sender.is_channel_closed(ChannelId::new(0)), "c13: forced removal did not close the channel");
            drop(sender);
        }
    } else {
        core::mem::forget(sender);
        if survivor_first {
            drop(receiver);
            assert!(destroyed() == 0 && exists());
            assert!(unsafe { Conn::remove_sender(&name(), &cfg) }.is_ok());
        } else {
            assert!(unsafe { Conn::remove_sender(&name(), &cfg) }.is_ok());
            assert!(destroyed() == 0 && exists());
            drop(receiver);
        }
    }
    assert!(destroyed() == 1 && !exists(), "c13: resource not destroyed exactly once after forced removal");
    assert!(owned() == 1);
    // removing a role of a connection that is gone is reported, not repeated
    assert!(unsafe { Conn::remove_sender(&name(), &cfg) } == Err(ZeroCopyPortRemoveError::DoesNotExist));
    assert!(destroyed() == 1);
    kani::cover!(dead_is_receiver && survivor_first, "survivor left before the forced removal");
    kani::cover!(!dead_is_receiver && !survivor_first, "forced removal of the sender first");
    canaries();
});

/// An attach racing with the detach of the other side.  The storage model fires a hook at the two
/// points where another process can act during `create_receiver`: (1) after the existing storage
/// was opened but before the port is registered, (2) right after the port was registered (before
/// the compatibility checks).  At that point the attached sender detaches.
///  * sender left before the registration: the attach must be refused as being cleaned up - it
///    must never end up on the destroyed resource;
///  * sender left after the registration: a matching attach succeeds on a resource that is alive,
///    a mismatching one is refused and, being the last one out, destroys the resource;
///  * in every case the resource is destroyed exactly once, by the last one out.
pub static mut RACE_SENDER: Option<<Conn as ZeroCopyConnection>::Sender> = None;
pub static mut RACE_GUARD: u8 = 2;

fn hook_drop_sender() {
    unsafe {
        RACE_GUARD = 1;
        let s = RACE_SENDER.take();
        drop(s);
    }
}

proof!(6, fn c13_attach_races_detach() {
    unsafe {
        RACE_SENDER = Some(builder(BASE).create_sender().unwrap());
        let at: u8 = kani::any();
        kani::assume(at == 1 || at == 2);
        let mismatch: bool = kani::any();
        let mut p = BASE;
        if mismatch {
            p.borrow = 2;
        }
        KSTORAGE_HOOK = hook_drop_sender;
        KSTORAGE_HOOK_AT = at;
        let r = builder(p).create_receiver();
        KSTORAGE_HOOK_AT = 9;
        assert!(RACE_GUARD == 1 && RACE_SENDER.is_none(), "harness: the racing detach did not run");
        match r {
            Ok(receiver) => {
                assert!(at == 2 && !mismatch, "c13: attach succeeded although the connection was being torn down / mismatching");
                assert!(destroyed() == 0 && exists(), "c13: attached to a destroyed resource");
                assert!(!receiver.is_connected());
                drop(receiver);
            }
            Err(e) => {
                if at == 1 {
                    assert!(e == ZeroCopyCreationError::IsBeingCleanedUp, "c13: attach racing the teardown not refused as being cleaned up");
                } else {
                    assert!(mismatch && e == ZeroCopyCreationError::IncompatibleMaxBorrowedSamplesPerChannelSetting);
                }
            }
        }
        assert!(destroyed() == 1 && owned() == 1 && !exists(), "c13: resource not destroyed exactly once by the last one out (leak or double destruction)");
        kani::cover!(at == 1, "sender detached before the receiver registered");
        kani::cover!(at == 2 && mismatch, "mismatching attacher became the last one out");
    }
    canaries();
});

// ------------------------------------------------------------------------------------------
// C13, quick tier: the same statements cut into pieces with at most two or three attach
// operations each and the case chosen by a const generic instead of a symbolic flag (every
// attach builds the complete management segment: ~10 M variables per attach).
// ------------------------------------------------------------------------------------------

fn drop_order<const SENDER_FIRST: bool>() {
    let sender = builder(BASE).create_sender().unwrap();
    assert!(!sender.is_connected());
    let receiver = builder(BASE).create_receiver().unwrap();
    assert!(sender.is_connected() && receiver.is_connected());
    assert!(destroyed() == 0 && owned() == 0 && exists());
    if SENDER_FIRST {
        drop(sender);
        assert!(destroyed() == 0 && owned() == 0 && exists(), "c13: resource destroyed while the receiver is attached");
        assert!(!receiver.is_connected());
        drop(receiver);
    } else {
        drop(receiver);
        assert!(destroyed() == 0 && owned() == 0 && exists(), "c13: resource destroyed while the sender is attached");
        assert!(!sender.is_connected());
        drop(sender);
    }
    assert!(destroyed() == 1 && !exists(), "c13: resource not destroyed exactly once by the last detach");
    assert!(owned() == 1, "c13: ownership not acquired exactly once");
    canaries();
}
proof!(6, fn c13_q_drop_sender_first() { drop_order::<true>(); });
proof!(6, fn c13_q_drop_receiver_first() { drop_order::<false>(); });

fn second_attach<const SECOND_SENDER: bool>() {
    let sender = builder(BASE).create_sender().unwrap();
    let receiver = builder(BASE).create_receiver().unwrap();
    if SECOND_SENDER {
        assert!(builder(BASE).create_sender().err() == Some(ZeroCopyCreationError::AnotherInstanceIsAlreadyConnected),
            "c13: a second sender attached");
    } else {
        assert!(builder(BASE).create_receiver().err() == Some(ZeroCopyCreationError::AnotherInstanceIsAlreadyConnected),
            "c13: a second receiver attached");
    }
    assert!(sender.is_connected() && receiver.is_connected(), "c13: refused attach disturbed the attached sides");
    assert!(destroyed() == 0 && owned() == 0 && exists(), "c13: refused attach destroyed the resource");
    core::mem::forget(sender);
    core::mem::forget(receiver);
    canaries();
}
proof!(6, fn c13_q_second_sender_refused() { second_attach::<true>(); });
proof!(6, fn c13_q_second_receiver_refused() { second_attach::<false>(); });

fn single_role<const RECEIVER: bool>() {
    if RECEIVER {
        let r = builder(BASE).create_receiver().unwrap();
        assert!(!r.is_connected());
        drop(r);
    } else {
        let s = builder(BASE).create_sender().unwrap();
        drop(s);
    }
    assert!(destroyed() == 1 && owned() == 1 && !exists(), "c13: lone role did not destroy the resource on detach");
    let s = builder(BASE).create_sender();
    assert!(s.is_ok() && exists(), "c13: name not usable again after teardown");
    core::mem::forget(s);
    canaries();
}
proof!(6, fn c13_q_single_sender_and_recreate() { single_role::<false>(); });
proof!(6, fn c13_q_single_receiver_and_recreate() { single_role::<true>(); });

/// one mismatching parameter (WHICH concrete), same or opposite role
fn mismatch<const WHICH: u8, const SAME_ROLE: bool>() {
    let sender = builder(BASE).create_sender().unwrap();
    let mut p = BASE;
    let expected = match WHICH {
        0 => { p.buffer = 2; ZeroCopyCreationError::IncompatibleBufferSize }
        1 => { p.borrow = 2; ZeroCopyCreationError::IncompatibleMaxBorrowedSamplesPerChannelSetting }
        2 => { p.overflow = false; ZeroCopyCreationError::IncompatibleOverflowSetting }
        3 => { p.chunks = 2; ZeroCopyCreationError::IncompatibleNumberOfSamples }
        4 => { p.segments = 2; ZeroCopyCreationError::IncompatibleNumberOfSegments }
        _ => { p.channels = 2; ZeroCopyCreationError::IncompatibleNumberOfChannels }
    };
    if SAME_ROLE {
        let r = builder(p).create_sender();
        assert!(r.err() == Some(ZeroCopyCreationError::AnotherInstanceIsAlreadyConnected),
            "c13: second (mismatching) attach of an attached role not refused as already connected");
    } else {
        let r = builder(p).create_receiver();
        assert!(r.err() == Some(expected), "c13: mismatching attach not refused with the matching error");
        assert!(!sender.is_connected(), "c13: refused mismatching attach left its role registered");
    }
    assert!(destroyed() == 0 && owned() == 0 && exists(), "c13: refused mismatching attach destroyed the resource");
    // the attached side is undisturbed: its detach is the last one and destroys the resource once
    drop(sender);
    assert!(destroyed() == 1 && owned() == 1 && !exists(), "c13: refused mismatching attach disturbed the attached side (its role bit is gone or the resource leaks)");
    canaries();
}
proof!(6, fn c13_q_mismatch_buffer_same_role() { mismatch::<0, true>(); });

/// the same case without the final teardown (a third less to solve): the refusal itself, with the
/// right error, and nothing destroyed
proof!(6, fn c13_q_second_sender_mismatch_refused() {
    let sender = builder(BASE).create_sender().unwrap();
    let mut p = BASE;
    p.buffer = 2;
    let r = builder(p).create_sender();
    assert!(r.err() == Some(ZeroCopyCreationError::AnotherInstanceIsAlreadyConnected),
        "c13: second (mismatching) attach of an attached role not refused as already connected");
    assert!(destroyed() == 0 && owned() == 0 && exists(), "c13: refused mismatching attach destroyed the resource");
    core::mem::forget(sender);
    canaries();
});
proof!(6, fn c13_q_mismatch_borrow_other_role() { mismatch::<1, false>(); });
proof!(6, fn c13_q_mismatch_channels_other_role() { mismatch::<5, false>(); });
proof!(6, fn c13_t_mismatch_buffer_other_role() { mismatch::<0, false>(); });
proof!(6, fn c13_t_mismatch_overflow_other_role() { mismatch::<2, false>(); });
proof!(6, fn c13_t_mismatch_chunks_other_role() { mismatch::<3, false>(); });
proof!(6, fn c13_t_mismatch_segments_other_role() { mismatch::<4, false>(); });
proof!(6, fn c13_t_mismatch_channels_same_role() { mismatch::<5, true>(); });

fn attach_races_detach<const AT: u8, const MISMATCH: bool>() {
    unsafe {
        RACE_SENDER = Some(builder(BASE).create_sender().unwrap());
        let mut p = BASE;
        if MISMATCH {
            p.borrow = 2;
        }
        KSTORAGE_HOOK = hook_drop_sender;
        KSTORAGE_HOOK_AT = AT;
        let r = builder(p).create_receiver();
        KSTORAGE_HOOK_AT = 9;
        assert!(RACE_GUARD == 1 && RACE_SENDER.is_none(), "harness: the racing detach did not run");
        match r {
            Ok(receiver) => {
                assert!(AT == 2 && !MISMATCH, "c13: attach succeeded although the connection was being torn down / mismatching");
                assert!(destroyed() == 0 && exists(), "c13: attached to a destroyed resource");
                assert!(!receiver.is_connected());
                drop(receiver);
            }
            Err(e) => {
                if AT == 1 {
                    assert!(e == ZeroCopyCreationError::IsBeingCleanedUp, "c13: attach racing the teardown not refused as being cleaned up");
                } else {
                    assert!(MISMATCH && e == ZeroCopyCreationError::IncompatibleMaxBorrowedSamplesPerChannelSetting);
                }
            }
        }
        assert!(destroyed() == 1 && owned() == 1 && !exists(), "c13: resource not destroyed exactly once by the last one out (leak or double destruction)");
    }
    canaries();
}
proof!(6, fn c13_q_race_detach_before_registration() { attach_races_detach::<1, false>(); });
proof!(6, fn c13_q_race_detach_after_registration_mismatch() { attach_races_detach::<2, true>(); });
proof!(6, fn c13_q_race_detach_after_registration_match() { attach_races_detach::<2, false>(); });
proof!(6, fn c13_t_race_detach_before_registration_mismatch() { attach_races_detach::<1, true>(); });

fn forced_removal<const DEAD_IS_RECEIVER: bool, const SURVIVOR_FIRST: bool>() {
    let sender = builder(BASE).create_sender().unwrap();
    let receiver = builder(BASE).create_receiver().unwrap();
    let cfg = <Conn as NamedConceptMgmt>::Configuration::default();
    if DEAD_IS_RECEIVER {
        core::mem::forget(receiver); // the process died: no Drop runs
        if SURVIVOR_FIRST {
            drop(sender);
            assert!(destroyed() == 0 && exists(), "c13: resource destroyed although the dead peer is still registered");
            assert!(unsafe { Conn::remove_receiver(&name(), &cfg) }.is_ok());
        } else {
            assert!(unsafe { Conn::remove_receiver(&name(), &cfg) }.is_ok());
            assert!(destroyed() == 0 && exists(), "c13: forced removal destroyed the resource under the survivor");
            assert!(!sender.is_connected());
            drop(sender);
        }
    } else {
        core::mem::forget(sender);
        if SURVIVOR_FIRST {
            drop(receiver);
            assert!(destroyed() == 0 && exists());
            assert!(unsafe { Conn::remove_sender(&name(), &cfg) }.is_ok());
        } else {
            assert!(unsafe { Conn::remove_sender(&name(), &cfg) }.is_ok());
            assert!(destroyed() == 0 && exists());
            drop(receiver);
        }
    }
    assert!(destroyed() == 1 && !exists(), "c13: resource not destroyed exactly once after forced removal");
    assert!(owned() == 1);
    canaries();
}
proof!(6, fn c13_q_forced_removal_receiver_then_sender_leaves() { forced_removal::<true, false>(); });
proof!(6, fn c13_q_forced_removal_sender_after_receiver_left() { forced_removal::<false, true>(); });

// ==========================================================================================
// connection-level data path: C03 / C01 / C02 / C08
// ==========================================================================================

pub const NCH: usize = 4; // chunks (offsets 0, 8, 16, 24 with sample size 8)

/// where each chunk is: 0 = owned by sender (free), 1 = in submission queue, 2 = borrowed by
/// the receiver, 3 = in completion queue
pub struct Model {
    pub st: [u8; NCH],
    pub sub: Fifo<4>,
    pub comp: Fifo<8>,
}

/// History harness on one sender -> receiver connection: STEPS symbolic operations out of
/// {try_send(free chunk), receive, release(borrowed chunk), reclaim}.
pub fn data_history<const BUF: usize, const BORROW: usize, const STEPS: usize>(overflow: bool) {
    let p = Params { buffer: BUF, borrow: BORROW, overflow, chunks: NCH, segments: 1, channels: 1 };
    let sender = builder(p).create_sender().unwrap();
    let receiver = builder(p).create_receiver().unwrap();
    let ch = ChannelId::new(0);
    let mut m = Model { st: [0; NCH], sub: Fifo::new(), comp: Fifo::new() };
    let mut evictions = 0;
    let mut full_refusals = 0;
    let mut borrow_refusals = 0;
    let mut step = 0;
    while step < STEPS {
        let op: u8 = kani::any();
        let c: usize = kani::any();
        kani::assume(c < NCH);
        match op {
            0 => {
                kani::assume(m.st[c] == 0); // the sender only sends chunks it owns
                let r = sender.try_send(PointerOffset::new(c * 8), 8, ch);
                if !overflow && m.sub.len == BUF {
                    assert!(r == Err(ZeroCopySendError::ReceiveBufferFull), "c01: send into a full buffer without overflow was not refused");
                    full_refusals += 1;
                } else {
                    match r {
                        Ok(None) => {
                            assert!(m.sub.len < BUF, "c01: full buffer accepted a sample without evicting");
                            m.sub.push(c as u64);
                            m.st[c] = 1;
                        }
                        Ok(Some(e)) => {
                            assert!(overflow && m.sub.len == BUF, "c01: eviction although the buffer is not full");
                            let oldest = m.sub.pop().unwrap();
                            assert!(e.offset() == oldest as usize * 8, "c01: overflow did not evict the oldest unreceived sample");
                            m.st[oldest as usize] = 0; // handed back to the sender by this very call
                            m.sub.push(c as u64);
                            m.st[c] = 1;
                            evictions += 1;
                        }
                        Err(_) => assert!(false, "c03: try_send failed unexpectedly"),
                    }
                }
            }
            1 => {
                let borrowed = receiver.borrow_count(ch);
                match receiver.receive(ch) {
                    Ok(Some(o)) => {
                        assert!(borrowed < BORROW, "c08: receive beyond max borrow succeeded");
                        let exp = m.sub.pop();
                        assert!(exp == Some((o.offset() / 8) as u64), "c01: samples received out of send order / duplicated / invented");
                        m.st[o.offset() / 8] = 2;
                    }
                    Ok(None) => {
                        assert!(borrowed < BORROW);
                        assert!(m.sub.len == 0, "c01: receive returned nothing although a sample is pending");
                    }
                    Err(e) => {
                        assert!(e == ZeroCopyReceiveError::ReceiveWouldExceedMaxBorrowValue);
                        assert!(borrowed == BORROW, "c08: borrow limit reported although capacity is free");
                        borrow_refusals += 1;
                    }
                }
            }
            2 => {
                kani::assume(m.st[c] == 2);
                let r = receiver.release(PointerOffset::new(c * 8), ch);
                assert!(r.is_ok(), "c03/c08: release failed for lack of space although the receiver stayed within max borrow");
                m.comp.push(c as u64);
                m.st[c] = 3;
            }
            _ => match sender.reclaim(ch) {
                Ok(Some(o)) => {
                    let exp = m.comp.pop();
                    assert!(exp == Some((o.offset() / 8) as u64), "c02: reclaim returned a chunk that was not released (or out of order)");
                    m.st[o.offset() / 8] = 0;
                }
                Ok(None) => assert!(m.comp.len == 0, "c02: released chunk not reclaimable"),
                Err(_) => assert!(false, "c02: reclaim failed"),
            },
        }
        // C08: the receiver side never holds more than buffer + max borrowed
        let mut held = 0;
        let mut borrowed = 0;
        let mut i = 0;
        while i < NCH {
            if m.st[i] == 1 || m.st[i] == 2 {
                held += 1;
            }
            if m.st[i] == 2 {
                borrowed += 1;
            }
            i += 1;
        }
        assert!(held <= BUF + BORROW);
        assert!(receiver.borrow_count(ch) == borrowed, "c08: borrow count differs from the model");
        assert!(receiver.has_data(ch) == (m.sub.len > 0));
        step += 1;
    }
    // C02: after the receiver is gone the sender gets back exactly the chunks that were still
    // on the receiver side or in flight, each once
    drop(receiver);
    let mut back = [0u8; NCH];
    unsafe {
        sender.acquire_used_offsets(|o| {
            back[o.offset() / 8] += 1;
        })
    };
    let mut i = 0;
    while i < NCH {
        let expect = if m.st[i] != 0 { 1 } else { 0 };
        assert!(back[i] == expect, "c02: chunks handed back after the receiver left differ from the ones in flight");
        i += 1;
    }
    drop(sender);
    assert!(destroyed() == 1);
    if overflow {
        kani::cover!(evictions > 0, "an overflow eviction happened");
    } else {
        kani::cover!(full_refusals > 0, "a send into a full buffer was refused");
    }
    kani::cover!(borrow_refusals > 0, "a receive beyond max borrow was refused");
}

proof!(8, fn conn_data_history_overflow() { data_history::<1, 1, 4>(true); canaries(); });
proof!(8, fn conn_data_history_no_overflow() { data_history::<1, 1, 4>(false); canaries(); });
proof!(9, fn conn_data_history_overflow_deep() { data_history::<2, 1, 6>(true); canaries(); });
proof!(9, fn conn_data_history_no_overflow_deep() { data_history::<2, 2, 6>(false); canaries(); });

// ==========================================================================================
// C11 — channel separation on the connection (2 channels)
// ==========================================================================================

/// offsets sent on channel c are received only on channel c; per-channel borrow counters and
/// completion queues are independent
proof!(8, fn c11_channel_separation() {
    let p = Params { buffer: 1, borrow: 1, overflow: false, chunks: 2, segments: 1, channels: 2 };
    let sender = builder(p).create_sender().unwrap();
    let receiver = builder(p).create_receiver().unwrap();
    let a: usize = kani::any();
    kani::assume(a < 2);
    let b = 1 - a;
    let (ca, cb) = (ChannelId::new(a), ChannelId::new(b));
    assert!(sender.try_send(PointerOffset::new(0), 8, ca) == Ok(None));
    assert!(!receiver.has_data(cb) && receiver.has_data(ca), "c11: sample visible on the wrong channel");
    assert!(receiver.receive(cb) == Ok(None), "c11: sample received through the wrong channel");
    assert!(sender.try_send(PointerOffset::new(8), 8, cb) == Ok(None), "c11: channels share their buffer");
    let ra = receiver.receive(ca).unwrap().unwrap();
    let rb = receiver.receive(cb).unwrap().unwrap();
    assert!(ra.offset() == 0 && rb.offset() == 8, "c11: samples crossed channels");
    assert!(receiver.borrow_count(ca) == 1 && receiver.borrow_count(cb) == 1);
    assert!(receiver.release(ra, ca).is_ok());
    assert!(sender.reclaim(cb) == Ok(None), "c11: released chunk came back on the wrong channel");
    assert!(sender.reclaim(ca).unwrap().unwrap().offset() == 0);
    assert!(receiver.release(rb, cb).is_ok());
    assert!(sender.reclaim(cb).unwrap().unwrap().offset() == 8);
    canaries();
});

// ==========================================================================================
// C11 — channel state protocol (provided methods of ZeroCopyPortDetails on a two-word implementor)
// ==========================================================================================

use iceoryx2_bb_concurrency::atomic::AtomicU64;

pub struct Chan {
    pub st: [AtomicU64; 2],
}

impl ZeroCopyPortDetails for Chan {
    fn number_of_channels(&self) -> usize { 2 }
    fn buffer_size(&self) -> usize { 1 }
    fn has_enabled_safe_overflow(&self) -> bool { false }
    fn max_borrowed_chunks(&self) -> usize { 1 }
    fn max_supported_shared_memory_segments(&self) -> u8 { 1 }
    fn is_connected(&self) -> bool { true }
    fn __internal_get_channel_state(&self, channel_id: ChannelId) -> &AtomicU64 {
        &self.st[channel_id.value()]
    }
}

const HINT: u64 = 1u64 << 63;
const CLOSED: u64 = u64::MAX;

/// one symbolic operation from an arbitrary reachable channel state (closed, owned by request r,
/// owned by r with disconnect hint): a channel can only be opened from CLOSED, close/hint only
/// act on the request that owns the channel, and a closed channel belongs to no request
proof!(8, fn c11_channel_state_machine() {
    let r: u64 = kani::any();
    kani::assume(r <= ChannelState::max_value());
    let shape: u8 = kani::any();
    kani::assume(shape < 3);
    let init = match shape { 0 => CLOSED, 1 => r, _ => r | HINT };
    let other_init: u64 = kani::any();
    let c = Chan { st: [AtomicU64::new(init), AtomicU64::new(other_init)] };
    let ch = ChannelId::new(0);
    let e: u64 = kani::any();
    kani::assume(e <= ChannelState::max_value());
    let es = ChannelState::new(e).unwrap();
    let raw = |c: &Chan| c.st[0].load(core::sync::atomic::Ordering::Relaxed);
    // observers
    assert!(c.is_channel_closed(ch) == (init == CLOSED));
    assert!(c.has_channel_state(ch, es) == (init != CLOSED && (init & !HINT) == e), "c11: has_channel_state wrong");
    assert!(c.has_disconnect_hint(ch, es) == (init == (e | HINT)));
    if init == CLOSED {
        assert!(!c.has_channel_state(ch, es), "c11: a closed channel appears to belong to a request");
    }
    let op: u8 = kani::any();
    match op {
        0 => {
            let ok = c.set_channel_state(ch, es);
            assert!(ok == (init == CLOSED), "c11: a channel was opened although it is owned by another request");
            assert!(raw(&c) == if ok { e } else { init });
        }
        1 => {
            c.set_disconnect_hint(ch, es);
            assert!(raw(&c) == if init == e { e | HINT } else { init }, "c11: disconnect hint set on a foreign request's channel");
        }
        _ => {
            c.close_channel(ch, es);
            let owned_by_e = init == e || init == (e | HINT);
            assert!(raw(&c) == if owned_by_e { CLOSED } else { init }, "c11: close_channel closed a channel owned by another request (or failed to close its own)");
        }
    }
    // the other channel is never touched
    assert!(c.st[1].load(core::sync::atomic::Ordering::Relaxed) == other_init, "c11: operation on one channel disturbed another");
    kani::cover!(op == 0 && init == CLOSED, "channel opened");
    kani::cover!(op >= 2 && init == (e | HINT), "channel with disconnect hint closed by its owner");
    canaries();
});

// ==========================================================================================
// C03 / C08 — the completion queue is large enough: directed worst case
// ==========================================================================================

/// The adversarial schedule behind the `buffer + max_borrow + 1` sizing of the completion queue:
/// the sender always reclaims everything before it sends, the receiver slips one release and one
/// receive in between the sender's reclaim loop and its send, then returns everything it holds.
/// Every release must succeed and the sender gets every offset back, in release order.
pub fn release_worst_case<const BUF: usize, const BORROW: usize, const N: usize>() {
    assert!(N == BUF + BORROW + 1);
    let p = Params { buffer: BUF, borrow: BORROW, overflow: false, chunks: N, segments: 1, channels: 1 };
    let sender = builder(p).create_sender().unwrap();
    let receiver = builder(p).create_receiver().unwrap();
    let ch = ChannelId::new(0);
    let mut next = 0usize;
    let mut held = [0usize; 4];
    let mut nheld = 0usize;
    // receiver borrows up to its limit
    let mut i = 0;
    while i < BORROW {
        assert!(sender.reclaim(ch) == Ok(None));
        assert!(sender.try_send(PointerOffset::new(next * 8), 8, ch) == Ok(None));
        next += 1;
        held[nheld] = receiver.receive(ch).unwrap().unwrap().offset();
        nheld += 1;
        i += 1;
    }
    // the buffer fills up
    let mut i = 0;
    while i < BUF {
        assert!(sender.reclaim(ch) == Ok(None));
        assert!(sender.try_send(PointerOffset::new(next * 8), 8, ch) == Ok(None));
        next += 1;
        i += 1;
    }
    // sender: reclaim loop finds nothing ...
    assert!(sender.reclaim(ch) == Ok(None));
    // ... receiver: one release, one receive ...
    let mut released = 0usize;
    assert!(receiver.release(PointerOffset::new(held[0]), ch).is_ok(), "c03/c08: release failed for lack of space");
    released += 1;
    held[0] = receiver.receive(ch).unwrap().unwrap().offset();
    // ... sender: sends into the freed buffer slot
    assert!(sender.try_send(PointerOffset::new(next * 8), 8, ch) == Ok(None), "c08: send refused although the buffer has room");
    next += 1;
    assert!(next == N);
    // receiver returns everything it can get hold of
    let mut i = 0;
    while i < BORROW {
        assert!(receiver.release(PointerOffset::new(held[i]), ch).is_ok(), "c03/c08: release failed for lack of space");
        released += 1;
        i += 1;
    }
    let mut i = 0;
    while i < BUF {
        let o = receiver.receive(ch).unwrap().unwrap();
        assert!(receiver.release(o, ch).is_ok(), "c03/c08: release failed for lack of space although the receiver stayed within its limits");
        released += 1;
        i += 1;
    }
    assert!(released == N);
    // nothing lost: the sender reclaims exactly N distinct offsets
    let mut seen = [false; 5];
    let mut i = 0;
    while i < N {
        let o = sender.reclaim(ch).unwrap().unwrap().offset() / 8;
        assert!(o < N && !seen[o], "c03: an offset came back twice");
        seen[o] = true;
        i += 1;
    }
    assert!(sender.reclaim(ch) == Ok(None));
}

proof!(8, fn conn_release_worst_case_1_1() { release_worst_case::<1, 1, 3>(); canaries(); });
proof!(8, fn conn_release_worst_case_2_1() { release_worst_case::<2, 1, 4>(); canaries(); });
proof!(8, fn conn_release_worst_case_1_2() { release_worst_case::<1, 2, 4>(); canaries(); });

// ==========================================================================================
// C02 / C14 — used-chunk list (what the sender gets back when a receiver vanishes)
// ==========================================================================================

use iceoryx2_cal::zero_copy_connection::used_chunk_list::FixedSizeUsedChunkList;

/// insert / remove / remove_all history against a bit-mask model: an index is reported exactly
/// while it is in use; remove_all yields every used index once and empties the list
proof!(8, fn c02_used_chunk_list_history() {
    const CAP: usize = 4;
    let mut l = FixedSizeUsedChunkList::<CAP>::new();
    let mut m: u8 = 0;
    let mut drained = false;
    let mut step = 0;
    while step < 5 {
        let op: u8 = kani::any();
        let i: usize = kani::any();
        kani::assume(i < CAP);
        match op {
            0 | 1 => {
                let fresh = l.insert(i);
                assert!(fresh == ((m >> i) & 1 == 0), "c02: used-chunk list reports the wrong 'newly inserted' state");
                m |= 1 << i;
            }
            2 => {
                let was = l.remove(i);
                assert!(was == ((m >> i) & 1 == 1), "c02: used-chunk list removed an index that was not in use (or missed one)");
                m &= !(1 << i);
            }
            _ => {
                let mut got: u8 = 0;
                l.remove_all(|k| {
                    assert!(k < CAP && (got >> k) & 1 == 0, "c02: remove_all reported an index twice");
                    got |= 1 << k;
                });
                assert!(got == m, "c02: remove_all differs from the indices in use");
                if m != 0 {
                    drained = true;
                }
                m = 0;
            }
        }
        step += 1;
    }
    let mut got: u8 = 0;
    l.remove_all(|k| got |= 1 << k);
    assert!(got == m);
    kani::cover!(drained, "a non-empty list was drained");
    canaries();
});

/// C14: the used-chunk list is position independent (byte-copied to a fresh block mid-history)
proof!(8, fn c14_used_chunk_list_relocation() {
    type L = FixedSizeUsedChunkList<3>;
    let layout = core::alloc::Layout::new::<L>();
    unsafe {
        let a = alloc::alloc::alloc(layout) as *mut L;
        let b = alloc::alloc::alloc(layout) as *mut L;
        a.write(L::new());
        let i: usize = kani::any();
        let j: usize = kani::any();
        kani::assume(i < 3 && j < 3);
        let before: bool = kani::any();
        let mut m: u8 = 0;
        if before {
            assert!((*a).insert(i));
            m |= 1 << i;
        }
        core::ptr::copy_nonoverlapping(a as *const u8, b as *mut u8, layout.size());
        core::ptr::write_bytes(a as *mut u8, 0xFF, layout.size());
        alloc::alloc::dealloc(a as *mut u8, layout);
        let fresh = (*b).insert(j);
        assert!(fresh == ((m >> j) & 1 == 0), "c14: relocated used-chunk list lost or invented an entry");
        m |= 1 << j;
        let mut got: u8 = 0;
        (*b).remove_all(|k| got |= 1 << k);
        assert!(got == m, "c14: relocated used-chunk list reports different indices");
        alloc::alloc::dealloc(b as *mut u8, layout);
        kani::cover!(before && i != j, "entry inserted before the move survives it");
    }
    canaries();
});
