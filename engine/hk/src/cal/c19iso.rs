//! C19 (isolation part): NamedConceptConfiguration::{path_for, extract_name_from_file,
//! extract_name_from_path} — the real default methods of iceoryx2-cal, run on `KConfig` — keep
//! domains with different prefixes / suffixes / roots apart.

use super::kstorage::KConfig;
use crate::common::*;
use iceoryx2_bb_container::semantic_string::SemanticString;
use iceoryx2_bb_system_types::file_name::FileName;
use iceoryx2_bb_system_types::file_path::FilePath;
use iceoryx2_bb_system_types::path::Path;
use iceoryx2_cal::named_concept::NamedConceptConfiguration;

/// a symbolic file-name fragment of exactly `n` bytes (n concrete: the string machinery loops over
/// lengths, symbolic lengths make every loop symbolic) made of name characters
fn any_fragment(n: usize) -> ([u8; 3], usize) {
    let b: [u8; 3] = kani::any();
    let mut i = 0;
    while i < 3 {
        if i < n {
            let c = b[i];
            kani::assume((c >= b'a' && c <= b'z') || (c >= b'0' && c <= b'9') || c == b'_');
        }
        i += 1;
    }
    (b, n)
}

fn eq_bytes(a: &[u8], b: &[u8]) -> bool {
    if a.len() != b.len() {
        return false;
    }
    let mut i = 0;
    let mut r = true;
    while i < 8 {
        if i < a.len() && a[i] != b[i] {
            r = false;
        }
        i += 1;
    }
    r
}

fn starts_with(a: &[u8], p: &[u8]) -> bool {
    if p.len() > a.len() {
        return false;
    }
    let mut i = 0;
    let mut r = true;
    while i < 3 {
        if i < p.len() && a[i] != p[i] {
            r = false;
        }
        i += 1;
    }
    r
}

/// The fragments are valid by construction ([a-z0-9_], constant suffix / root), so the values are
/// built with `new_unchecked`: the validating constructors are C19's first half (c19.rs) and would
/// only add solver time here.  The operations under test (path_for / extract_*) are the real ones.
fn mk_cfg(prefix: &[u8], suffix: &[u8], root: &[u8]) -> KConfig {
    unsafe {
        KConfig::default()
            .prefix(&FileName::new_unchecked(prefix))
            .suffix(&FileName::new_unchecked(suffix))
            .path_hint(&Path::new_unchecked(root))
    }
}

fn mk_name(b: &[u8]) -> FileName {
    unsafe { FileName::new_unchecked(b) }
}

/// (i) a name written by a domain is read back by the same domain, unchanged;
/// (ii) a domain whose prefix is different and not a prefix-relative of the writer's never
///      extracts a name from the writer's file; a different suffix never matches.
fn domain_isolation<const N1: usize, const N2: usize, const NN: usize>(only_related: bool) {
    let (p1, n1) = any_fragment(N1);
    let (p2, n2) = any_fragment(N2);
    let (nm, nn) = any_fragment(NN);
    let related = starts_with(&p1[..n1], &p2[..n2]) || starts_with(&p2[..n2], &p1[..n1]);
    if only_related {
        kani::assume(related && !eq_bytes(&p1[..n1], &p2[..n2]));
    }
    let cfg1 = mk_cfg(&p1[..n1], b".s", b"/r");
    let cfg2 = mk_cfg(&p2[..n2], b".s", b"/r");
    let name = mk_name(&nm[..nn]);
    let file = cfg1.path_for(&name).file_name();
    assert!(file.len() == n1 + nn + 2);
    if only_related {
        // the class excluded from the main harness, stated on its own (known finding F-C19-1)
        assert!(cfg2.extract_name_from_file(&file).is_none(), "c19: a domain whose prefix is a prefix of (or extends) another domain's prefix sees that domain's file");
        return;
    }
    // (i) round trip inside the domain
    match cfg1.extract_name_from_file(&file) {
        Some(back) => assert!(eq_bytes(back.as_bytes(), &nm[..nn]), "c19: name does not round-trip through its own domain"),
        None => assert!(false, "c19: a domain does not recognise its own file"),
    }
    // (ii) non-interference for prefixes that are not prefixes of one another
    if !related {
        assert!(cfg2.extract_name_from_file(&file).is_none(), "c19: a foreign domain (unrelated prefix) sees this file");
    }
    // a different suffix never matches
    let other_suffix = mk_cfg(&p1[..n1], b".t", b"/r");
    assert!(other_suffix.extract_name_from_file(&file).is_none(), "c19: a domain with a different suffix sees this file");
    kani::cover!(!related, "two unrelated prefixes");
    kani::cover!(related, "identical or prefix-related prefixes");
}

/// The same statements with the file name written down directly (`<prefix><name>.s`, which is what
/// `c19_path_for_shape` shows `path_for` to produce) instead of going through `path_for` and
/// `FilePath::file_name`: one call of the real `extract_name_from_file` per domain.
/// MODE 0: all three statements; 1: only the prefix-of-prefix class (F-C19-1); 2: only the foreign-prefix call
fn cross_domain_direct<const N1: usize, const N2: usize, const NN: usize, const MODE: u8>() {
    let only_related = MODE == 1;
    let (p1, n1) = any_fragment(N1);
    let (p2, n2) = any_fragment(N2);
    let (nm, nn) = any_fragment(NN);
    let related = starts_with(&p1[..n1], &p2[..n2]) || starts_with(&p2[..n2], &p1[..n1]);
    if only_related {
        kani::assume(related && !eq_bytes(&p1[..n1], &p2[..n2]));
    }
    let mut buf = [0u8; 8];
    let mut k = 0;
    while k < 3 {
        if k < n1 {
            buf[k] = p1[k];
        }
        if k < nn {
            buf[n1 + k] = nm[k];
        }
        k += 1;
    }
    buf[n1 + nn] = b'.';
    buf[n1 + nn + 1] = b's';
    let file = mk_name(&buf[..n1 + nn + 2]);
    let cfg2 = mk_cfg(&p2[..n2], b".s", b"/r");
    if only_related {
        assert!(cfg2.extract_name_from_file(&file).is_none(), "c19: a domain whose prefix is a prefix of (or extends) another domain's prefix sees that domain's file");
        return;
    }
    if MODE == 2 {
        // quick tier: the one call that is the isolation statement itself
        kani::assume(!related);
        assert!(cfg2.extract_name_from_file(&file).is_none(), "c19: a foreign domain (unrelated prefix) sees this file");
        kani::cover!(p1[0] == p2[0], "prefixes that share their first byte");
        return;
    }
    let cfg1 = mk_cfg(&p1[..n1], b".s", b"/r");
    match cfg1.extract_name_from_file(&file) {
        Some(back) => assert!(eq_bytes(back.as_bytes(), &nm[..nn]), "c19: name does not round-trip through its own domain"),
        None => assert!(false, "c19: a domain does not recognise its own file"),
    }
    if !related {
        assert!(cfg2.extract_name_from_file(&file).is_none(), "c19: a foreign domain (unrelated prefix) sees this file");
    }
    let other_suffix = mk_cfg(&p1[..n1], b".t", b"/r");
    assert!(other_suffix.extract_name_from_file(&file).is_none(), "c19: a domain with a different suffix sees this file");
    kani::cover!(!related, "two unrelated prefixes");
    kani::cover!(related, "identical or prefix-related prefixes");
}

/// `path_for` produces `<root>/<prefix><name><suffix>` and nothing else
proof!(12, fn c19_path_for_shape() {
    let (p1, n1) = any_fragment(2);
    let (nm, nn) = any_fragment(2);
    let cfg1 = mk_cfg(&p1[..n1], b".s", b"/r");
    let fp = cfg1.path_for(&mk_name(&nm[..nn]));
    let b = fp.as_bytes();
    assert!(b.len() == 3 + n1 + nn + 2, "c19: path_for length");
    assert!(b[0] == b'/' && b[1] == b'r' && b[2] == b'/', "c19: created path is not under the configured root");
    assert!(b[3] == p1[0] && b[4] == p1[1] && b[5] == nm[0] && b[6] == nm[1] && b[7] == b'.' && b[8] == b's',
        "c19: path_for is not <root>/<prefix><name><suffix>");
    canaries();
});

/// (iii) roots, with the path written down directly (`/r/p<name>.s`, see `c19_path_for_shape`):
/// one or two calls of the real `extract_name_from_path` per harness.
fn root_direct<const WHICH: u8>() {
    let (nm, nn) = any_fragment(2);
    let mut buf = *b"/r/pXX.s";
    buf[4] = nm[0];
    buf[5] = nm[1];
    let fp = unsafe { FilePath::new_unchecked(&buf[..4 + nn + 2]) };
    // (for nn < 2 the tail is shifted: the suffix must follow the name)
    kani::assume(nn == 2);
    let cfg1 = mk_cfg(b"p", b".s", b"/r");
    match WHICH {
        0 => {
            match cfg1.extract_name_from_path(&fp) {
                Some(back) => assert!(eq_bytes(back.as_bytes(), &nm[..nn]), "c19: name does not round-trip through its own root"),
                None => assert!(false, "c19: a domain does not recognise its own path"),
            }
            let other = mk_cfg(b"p", b".s", b"/q");
            assert!(other.extract_name_from_path(&fp).is_none(), "c19: a domain with a different (unrelated, nested or sibling) root sees this file");
        }
        1 => {
            let nested = mk_cfg(b"p", b".s", b"/r/i");
            assert!(nested.extract_name_from_path(&fp).is_none(), "c19: a domain with a different (unrelated, nested or sibling) root sees this file");
            let mut deep = *b"/r/i/pXX.s";
            deep[6] = nm[0];
            deep[7] = nm[1];
            let fp_nested = unsafe { FilePath::new_unchecked(&deep[..6 + nn + 2]) };
            assert!(cfg1.extract_name_from_path(&fp_nested).is_none(), "c19: a domain sees a file created under a different root");
        }
        2 => {
            let sibling = mk_cfg(b"p", b".s", b"/rr");
            assert!(sibling.extract_name_from_path(&fp).is_none(), "c19: a domain with a different (unrelated, nested or sibling) root sees this file");
        }
        _ => {
            let same = mk_cfg(b"p", b".s", b"/r/");
            assert!(same.extract_name_from_path(&fp).is_some(), "c19: an equivalent spelling of the root lost its own file");
        }
    }
    canaries();
}

proof!(12, fn c19_root_direct_own_and_unrelated() { root_direct::<0>(); });
proof!(12, fn c19_root_direct_nested() { root_direct::<1>(); });
proof!(12, fn c19_root_direct_sibling() { root_direct::<2>(); });
proof!(12, fn c19_root_direct_same_spelling() { root_direct::<3>(); });

proof!(12, fn c19_foreign_prefix_direct() { cross_domain_direct::<2, 2, 2, 2>(); canaries(); });
proof!(12, fn c19_cross_domain_direct() { cross_domain_direct::<2, 2, 2, 0>(); canaries(); });
proof!(12, fn c19_cross_domain_direct_mixed_len() { cross_domain_direct::<1, 2, 2, 0>(); canaries(); });
proof!(12, fn c19_cross_domain_direct_prefix_of_prefix() { cross_domain_direct::<1, 2, 2, 1>(); });

proof!(12, fn c19_domain_isolation() { domain_isolation::<2, 2, 2>(false); canaries(); });
proof!(12, fn c19_domain_isolation_mixed_len() { domain_isolation::<1, 2, 2>(false); canaries(); });

/// (iii) everything lives under the configured root; a different root never matches, including
/// roots that are string prefixes of one another (nested / sibling); an equivalent spelling of the
/// same root is the same domain
proof!(12, fn c19_root_isolation() {
    let (nm, nn) = any_fragment(2);
    let name = mk_name(&nm[..nn]);
    let cfg1 = mk_cfg(b"p", b".s", b"/r");
    let fp: FilePath = cfg1.path_for(&name);
    assert!(fp.path() == unsafe { Path::new_unchecked(b"/r") }, "c19: created path is not under the configured root");
    assert!(cfg1.extract_name_from_path(&fp).is_some(), "c19: a domain does not recognise its own path");
    let which: u8 = kani::any();
    kani::assume(which < 3);
    let other_root: &[u8] = match which { 0 => b"/q", 1 => b"/r/i", _ => b"/rr" };
    let other = mk_cfg(b"p", b".s", other_root);
    assert!(other.extract_name_from_path(&fp).is_none(), "c19: a domain with a different (unrelated, nested or sibling) root sees this file");
    let fp_other = other.path_for(&name);
    assert!(cfg1.extract_name_from_path(&fp_other).is_none(), "c19: a domain sees a file created under a different root");
    let same = mk_cfg(b"p", b".s", b"/r/");
    assert!(same.extract_name_from_path(&fp).is_some(), "c19: an equivalent spelling of the root lost its own file");
    kani::cover!(which == 1, "nested root");
    canaries();
});

/// The class excluded above, stated on its own (known finding F-C19-1 while open): when one
/// prefix is a proper prefix of the other, the domain with the longer prefix can extract a
/// (different) name from the other domain's file.
proof!(12, fn c19_domain_isolation_prefix_of_prefix() { domain_isolation::<1, 2, 2>(true); });
