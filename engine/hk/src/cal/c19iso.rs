//! C19 (isolation part): NamedConceptConfiguration::{path_for, extract_name_from_file,
//! extract_name_from_path} — the real default methods of iceoryx2-cal, run on `KConfig` — keep
//! domains with different prefixes / suffixes / roots apart.

use super::kstorage::KConfig;
use crate::common::*;
use iceoryx2_bb_container::semantic_string::SemanticString;
use iceoryx2_bb_system_types::file_name::FileName;
use iceoryx2_bb_system_types::file_path::FilePath;
use iceoryx2_bb_system_types::path::Path;
use iceoryx2_cal::named_concept::NamedConceptConfiguration;

/// a symbolic file-name fragment of 1..=max bytes made of name characters
fn any_fragment(max: usize) -> ([u8; 3], usize) {
    let b: [u8; 3] = kani::any();
    let n: usize = kani::any();
    kani::assume(n >= 1 && n <= max);
    let mut i = 0;
    while i < 3 {
        if i < n {
            let c = b[i];
            kani::assume((c >= b'a' && c <= b'z') || (c >= b'0' && c <= b'9') || c == b'_');
        }
        i += 1;
    }
    (b, n)
}

fn eq_bytes(a: &[u8], b: &[u8]) -> bool {
    if a.len() != b.len() {
        return false;
    }
    let mut i = 0;
    let mut r = true;
    while i < 8 {
        if i < a.len() && a[i] != b[i] {
            r = false;
        }
        i += 1;
    }
    r
}

fn starts_with(a: &[u8], p: &[u8]) -> bool {
    if p.len() > a.len() {
        return false;
    }
    let mut i = 0;
    let mut r = true;
    while i < 3 {
        if i < p.len() && a[i] != p[i] {
            r = false;
        }
        i += 1;
    }
    r
}

fn mk_cfg(prefix: &[u8], suffix: &[u8], root: &[u8]) -> KConfig {
    KConfig::default()
        .prefix(&FileName::new(prefix).unwrap())
        .suffix(&FileName::new(suffix).unwrap())
        .path_hint(&Path::new(root).unwrap())
}

/// (i) a name written by a domain is read back by the same domain, unchanged;
/// (ii) a domain whose prefix is different and not a prefix-relative of the writer's never
///      extracts a name from the writer's file; (iii) a different root never matches.
proof!(12, fn c19_domain_isolation() {
    let (p1, n1) = any_fragment(2);
    let (p2, n2) = any_fragment(2);
    let (nm, nn) = any_fragment(2);
    let cfg1 = mk_cfg(&p1[..n1], b".s", b"/r");
    let cfg2 = mk_cfg(&p2[..n2], b".s", b"/r");
    let name = FileName::new(&nm[..nn]).unwrap();
    let fp: FilePath = cfg1.path_for(&name);
    // everything lives under the configured root
    assert!(fp.path() == Path::new(b"/r").unwrap(), "c19: created path is not under the configured root");
    let file = fp.file_name();
    assert!(file.len() == n1 + nn + 2);
    // (i) round trip inside the domain
    match cfg1.extract_name_from_file(&file) {
        Some(back) => assert!(eq_bytes(back.as_bytes(), &nm[..nn]), "c19: name does not round-trip through its own domain"),
        None => assert!(false, "c19: a domain does not recognise its own file"),
    }
    assert!(cfg1.extract_name_from_path(&fp).is_some());
    // (ii) non-interference for prefixes that are not prefixes of one another
    let related = starts_with(&p1[..n1], &p2[..n2]) || starts_with(&p2[..n2], &p1[..n1]);
    if !related {
        assert!(cfg2.extract_name_from_file(&file).is_none(), "c19: a foreign domain (unrelated prefix) sees this file");
    }
    // (iii) a different root never matches, whatever the prefix
    let other_root = mk_cfg(&p1[..n1], b".s", b"/q");
    assert!(other_root.extract_name_from_path(&fp).is_none(), "c19: a domain with a different root sees this file");
    // nested roots: one root being a string prefix of the other must not leak in either direction
    let nested = mk_cfg(&p1[..n1], b".s", b"/r/i");
    assert!(nested.extract_name_from_path(&fp).is_none(), "c19: a domain rooted below this one sees this file");
    let fp_nested = nested.path_for(&name);
    assert!(cfg1.extract_name_from_path(&fp_nested).is_none(), "c19: a domain sees a file created under a nested root");
    let sibling = mk_cfg(&p1[..n1], b".s", b"/rr");
    assert!(sibling.extract_name_from_path(&fp).is_none() && cfg1.extract_name_from_path(&sibling.path_for(&name)).is_none(),
        "c19: roots that are string prefixes of one another are not separated");
    // an equivalent spelling of the same root is the same domain
    let same = mk_cfg(&p1[..n1], b".s", b"/r/");
    assert!(same.extract_name_from_path(&fp).is_some(), "c19: an equivalent spelling of the root lost its own file");
    // a different suffix never matches
    let other_suffix = mk_cfg(&p1[..n1], b".t", b"/r");
    assert!(other_suffix.extract_name_from_file(&file).is_none(), "c19: a domain with a different suffix sees this file");
    kani::cover!(!related && n1 == 2 && n2 == 2, "two unrelated two-byte prefixes");
    kani::cover!(related && !eq_bytes(&p1[..n1], &p2[..n2]), "prefix of a prefix");
    canaries();
});

/// The class excluded above, stated on its own (known finding F-C19-1 while open): when one
/// prefix is a proper prefix of the other, the domain with the shorter prefix extracts a
/// (different) name from the other domain's file.
proof!(12, fn c19_domain_isolation_prefix_of_prefix() {
    let (p1, n1) = any_fragment(2);
    let (p2, n2) = any_fragment(2);
    let (nm, nn) = any_fragment(2);
    let related = starts_with(&p1[..n1], &p2[..n2]) || starts_with(&p2[..n2], &p1[..n1]);
    kani::assume(related && !eq_bytes(&p1[..n1], &p2[..n2]));
    let cfg1 = mk_cfg(&p1[..n1], b".s", b"/r");
    let cfg2 = mk_cfg(&p2[..n2], b".s", b"/r");
    let name = FileName::new(&nm[..nn]).unwrap();
    let file = cfg1.path_for(&name).file_name();
    assert!(cfg2.extract_name_from_file(&file).is_none(), "c19: a domain whose prefix is a prefix of (or extends) another domain's prefix sees that domain's file");
});
