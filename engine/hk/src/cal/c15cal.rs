//! C15 (cal part): the shared-memory allocators as seen through segment-relative offsets, and
//! C14's relational check for them (same history over two differently placed segments yields
//! identical offsets).

use crate::common::*;
use core::alloc::Layout;
use core::ptr::NonNull;
use iceoryx2_bb_elementary::allocation_strategy::AllocationStrategy;
use iceoryx2_bb_elementary::bump_allocator::BumpAllocator;
use iceoryx2_bb_elementary_traits::allocator::*;
use iceoryx2_cal::shm_allocator::bump_allocator as shm_bump;
use iceoryx2_cal::shm_allocator::pool_allocator as shm_pool;
use iceoryx2_cal::shm_allocator::*;

fn any_layout(max_size: usize, max_align_log: u8) -> Layout {
    let size: usize = kani::any();
    kani::assume(size <= max_size);
    let al: u8 = kani::any();
    kani::assume(al <= max_align_log);
    Layout::from_size_align(size, 1usize << al).unwrap()
}

/// PointerOffset packs (offset, segment id) without loss for all 56-bit offsets / 8-bit ids
proof!(2, fn c15_pointer_offset_roundtrip() {
    let off: usize = kani::any();
    kani::assume(off < (1usize << 56));
    let id: u8 = kani::any();
    let p = PointerOffset::from_offset_and_segment_id(off, SegmentId::new(id));
    assert!(p.offset() == off, "c15: offset does not round-trip");
    assert!(p.segment_id() == SegmentId::new(id), "c15: segment id does not round-trip");
    let id2: u8 = kani::any();
    let mut q = p;
    q.set_segment_id(SegmentId::new(id2));
    assert!(q.offset() == off && q.segment_id().value() == id2, "c15: set_segment_id disturbs the offset");
    assert!(PointerOffset::from_value(p.as_value()) == p);
    assert!(PointerOffset::new(off).segment_id().value() == 0 && PointerOffset::new(off).offset() == off);
    canaries();
});

const MGMT: usize = 64;

/// shm pool allocator over a symbolic segment: offsets resolve to in-bounds, aligned, disjoint
/// buckets; failures are the documented ones; freed buckets are reusable
proof!(8, fn c15_shm_pool_history() {
    let mut payload = Block::<128>::new();
    let mut mgmt = Block::<MGMT>::new();
    let memsize: usize = kani::any();
    kani::assume(memsize <= 48);
    let bl = any_layout(12, 3);
    kani::assume(bl.size() >= 1);
    // at most 5 buckets (the index set initialisation loops over capacity + 1 cells)
    kani::assume(memsize <= 5 * bl.size());
    let base = payload.0.as_mut_ptr();
    let seg = NonNull::slice_from_raw_parts(NonNull::new(base).unwrap(), memsize);
    let cfg = shm_pool::Config { bucket_layout: bl };
    let mut a = unsafe { shm_pool::PoolAllocator::new_uninit(64, seg, &cfg) };
    let mgmt_alloc = BumpAllocator::new(NonNull::new(mgmt.0.as_mut_ptr()).unwrap(), MGMT);
    assert!(shm_pool::PoolAllocator::management_size(memsize, &cfg) <= MGMT);
    assert!(unsafe { a.init(&mgmt_alloc) }.is_ok());
    let ia = unsafe { a.assume_init() };
    let start = base as usize + a.relative_start_address();
    let nb = a.number_of_buckets() as usize;
    let bsz = a.bucket_size();
    assert!(a.max_alignment() == bl.align());
    let mut live: [usize; 4] = [0; 4];
    let mut nlive = 0usize;
    let mut reused = false;
    let mut last_freed: usize = 1;
    let mut step = 0;
    while step < 4 {
        if kani::any::<bool>() && nlive > 0 {
            let k: usize = kani::any();
            kani::assume(k < nlive);
            let off = live[k];
            unsafe { ia.deallocate(PointerOffset::new(off), bl) };
            live[k] = live[nlive - 1];
            nlive -= 1;
            last_freed = off;
        } else {
            let req = any_layout(13, 4);
            match ia.allocate(req) {
                Ok(p) => {
                    assert!(p.segment_id().value() == 0);
                    let off = p.offset();
                    let x = start + off;
                    assert!(req.size() <= bsz && req.align() <= bl.align());
                    assert!(nlive < nb && nlive < 4, "c15: more live shm buckets than number_of_buckets");
                    assert!(x >= base as usize && x + bsz <= base as usize + memsize, "c15: shm bucket outside the segment");
                    assert!(x % req.align() == 0, "c15: shm allocation violates the requested alignment");
                    let mut i = 0;
                    while i < 4 {
                        if i < nlive {
                            let y = live[i];
                            assert!(off + bsz <= y || y + bsz <= off, "c15: live shm buckets overlap");
                        }
                        i += 1;
                    }
                    if off == last_freed {
                        reused = true;
                    }
                    live[nlive] = off;
                    nlive += 1;
                }
                Err(e) => {
                    if req.align() > bl.align() {
                        assert!(e == AllocationError::AlignmentFailure);
                    } else if req.size() > bsz {
                        assert!(e == AllocationError::SizeTooLarge);
                    } else {
                        assert!(e == AllocationError::OutOfMemory);
                        assert!(nlive == nb, "c15: shm OutOfMemory although a bucket is free");
                    }
                }
            }
        }
        step += 1;
    }
    kani::cover!(nlive >= 3, "three live shm buckets");
    kani::cover!(reused, "freed shm bucket handed out again");
    kani::cover!(bl.size() % bl.align() != 0 && nlive >= 2, "bucket size not a multiple of the alignment");
    canaries();
});

/// resize_hint: the hinted configuration admits the request and never shrinks
proof!(8, fn c15_shm_pool_resize_hint() {
    let mut payload = Block::<128>::new();
    let mut mgmt = Block::<MGMT>::new();
    let bl = any_layout(16, 3);
    kani::assume(bl.size() >= 1 && bl.size() % bl.align() == 0);
    let memsize = 2 * bl.size();
    let base = payload.0.as_mut_ptr();
    let seg = NonNull::slice_from_raw_parts(NonNull::new(base).unwrap(), memsize);
    let cfg = shm_pool::Config { bucket_layout: bl };
    let mut a = unsafe { shm_pool::PoolAllocator::new_uninit(64, seg, &cfg) };
    let mgmt_alloc = BumpAllocator::new(NonNull::new(mgmt.0.as_mut_ptr()).unwrap(), MGMT);
    assert!(unsafe { a.init(&mgmt_alloc) }.is_ok());
    assert!(a.number_of_buckets() == 2);
    let ia = unsafe { a.assume_init() };
    let used: u8 = kani::any();
    kani::assume(used <= 2);
    if used >= 1 {
        assert!(ia.allocate(bl).is_ok());
    }
    if used >= 2 {
        assert!(ia.allocate(bl).is_ok());
    }
    let req = any_layout(40, 5);
    let which: u8 = kani::any();
    kani::assume(which < 3);
    let strategy = match which { 0 => AllocationStrategy::Static, 1 => AllocationStrategy::BestFit, _ => AllocationStrategy::PowerOfTwo };
    let hint = a.resize_hint(req, strategy);
    let hl = hint.config.bucket_layout;
    let buckets = if hl.size() == 0 { 0 } else { hint.payload_size / hl.size() };
    assert!(hint.payload_size == hl.size() * buckets, "c15: hinted payload size is not a whole number of buckets");
    assert!(buckets >= 2, "c15: resize hint shrinks the number of buckets");
    if which == 0 {
        assert!(hl == bl && buckets == 2, "c15: Static strategy changed the configuration");
    } else {
        assert!(hl.size() >= req.size().max(bl.size()), "c15: hinted bucket cannot hold the request");
        assert!(hl.align() >= req.align().max(bl.align()), "c15: hinted bucket alignment too small");
        assert!(hl.size() % hl.align() == 0, "c15: hinted bucket size is not a multiple of its alignment");
        if used == 2 {
            assert!(buckets >= 3, "c15: exhausted pool is not grown");
        }
        if which == 2 {
            assert!(hl.size().is_power_of_two() || hl.size() % hl.align() == 0);
            if used == 2 {
                assert!(buckets.is_power_of_two(), "c15: PowerOfTwo bucket count is not a power of two");
            }
        }
    }
    kani::cover!(used == 2 && which == 2 && req.size() > bl.size(), "exhausted pool, larger request, power of two");
    canaries();
});

/// shm bump allocator: offsets in bounds, aligned (relative to an 8-aligned base), increasing;
/// grow of the last chunk in place and of an inner chunk by relocation keep the content
proof!(16, fn c15_shm_bump_history() {
    let mut payload = Block::<128>::new();
    let memsize: usize = kani::any();
    kani::assume(memsize <= 40);
    let base = payload.0.as_mut_ptr();
    let seg = NonNull::slice_from_raw_parts(NonNull::new(base).unwrap(), memsize);
    let cfg = shm_bump::Config::default();
    let mut a = unsafe { shm_bump::BumpAllocator::new_uninit(64, seg, &cfg) };
    let dummy = BumpAllocator::new(NonNull::new(base).unwrap(), 0);
    assert!(unsafe { a.init(&dummy) }.is_ok());
    assert!(a.relative_start_address() == 0);
    let ia = unsafe { a.assume_init() };
    let r1 = any_layout(12, 4);
    let r2 = any_layout(12, 4);
    let mut cursor = 0usize;
    let mut offs = [0usize; 2];
    let mut ok = [false; 2];
    let reqs = [r1, r2];
    let mut i = 0;
    while i < 2 {
        let req = reqs[i];
        let aligned = (cursor + req.align() - 1) & !(req.align() - 1);
        match ia.allocate(req) {
            Ok(p) => {
                let off = p.offset();
                assert!(req.align() <= 8 && req.size() > 0);
                assert!(off % req.align() == 0, "c15: shm bump offset misaligned");
                assert!(off == aligned && off >= cursor, "c15: shm bump allocations overlap");
                assert!(off + req.size() <= memsize, "c15: shm bump allocation outside the segment");
                cursor = off + req.size();
                offs[i] = off;
                ok[i] = true;
            }
            Err(e) => {
                if req.align() > 8 {
                    assert!(e == AllocationError::AlignmentFailure);
                } else if req.size() == 0 {
                    assert!(e == AllocationError::SizeIsZero);
                } else {
                    assert!(e == AllocationError::OutOfMemory && aligned + req.size() > memsize);
                }
            }
        }
        i += 1;
    }
    // grow one of the chunks
    if ok[0] && ok[1] {
        let which: usize = kani::any();
        kani::assume(which < 2);
        let old = reqs[which];
        let add: usize = kani::any();
        kani::assume(add >= 1 && add <= 6);
        let new_l = Layout::from_size_align(old.size() + add, old.align()).unwrap();
        let data: [u8; 12] = kani::any();
        let mut k = 0;
        while k < 12 {
            if k < old.size() {
                unsafe { *base.add(offs[which] + k) = data[k] };
            }
            k += 1;
        }
        let back: bool = kani::any();
        let placement = if back { ContentPlacement::Back } else { ContentPlacement::Front };
        match unsafe { ia.grow(PointerOffset::new(offs[which]), old, new_l, placement) } {
            Ok(p) => {
                let off = p.offset();
                assert!(off % new_l.align() == 0 && off + new_l.size() <= memsize, "c15: grown shm chunk out of bounds");
                if which == 1 {
                    assert!(off == offs[1], "c15: last chunk was not grown in place");
                } else {
                    assert!(off >= cursor, "c15: relocated chunk overlaps live chunks");
                }
                let shift = if back { add } else { 0 };
                let mut k = 0;
                while k < 12 {
                    if k < old.size() {
                        assert!(unsafe { *base.add(off + shift + k) } == data[k], "c15: grow lost the content");
                    }
                    k += 1;
                }
                kani::cover!(which == 0, "inner chunk relocated by grow");
                kani::cover!(which == 1 && back, "last chunk grown in place with Back placement");
            }
            Err(e) => assert!(e == AllocationGrowError::OutOfMemory),
        }
    }
    canaries();
});

/// C14 (relational): the same allocate/deallocate history over two differently placed segments
/// yields identical offsets — the allocators are position independent as observed through offsets
proof!(8, fn c14_shm_pool_relational() {
    let mut p1 = Block::<128>::new();
    let mut p2 = Block::<128>::new();
    let mut m1 = Block::<MGMT>::new();
    let mut m2 = Block::<MGMT>::new();
    let shift: usize = kani::any();
    kani::assume(shift == 0 || shift == 16 || shift == 32);
    let bl = any_layout(12, 3);
    kani::assume(bl.size() >= 8);
    let memsize = 48;
    let cfg = shm_pool::Config { bucket_layout: bl };
    let seg1 = NonNull::slice_from_raw_parts(NonNull::new(p1.0.as_mut_ptr()).unwrap(), memsize);
    let seg2 = NonNull::slice_from_raw_parts(NonNull::new(unsafe { p2.0.as_mut_ptr().add(shift) }).unwrap(), memsize);
    let mut a1 = unsafe { shm_pool::PoolAllocator::new_uninit(64, seg1, &cfg) };
    let mut a2 = unsafe { shm_pool::PoolAllocator::new_uninit(64, seg2, &cfg) };
    let ma1 = BumpAllocator::new(NonNull::new(m1.0.as_mut_ptr()).unwrap(), MGMT);
    let ma2 = BumpAllocator::new(NonNull::new(m2.0.as_mut_ptr()).unwrap(), MGMT);
    assert!(unsafe { a1.init(&ma1) }.is_ok() && unsafe { a2.init(&ma2) }.is_ok());
    assert!(a1.relative_start_address() == a2.relative_start_address());
    assert!(a1.number_of_buckets() == a2.number_of_buckets());
    let i1 = unsafe { a1.assume_init() };
    let i2 = unsafe { a2.assume_init() };
    let mut last: Option<PointerOffset> = None;
    let mut step = 0;
    while step < 3 {
        if kani::any::<bool>() && last.is_some() {
            let o = last.take().unwrap();
            unsafe { i1.deallocate(o, bl) };
            unsafe { i2.deallocate(o, bl) };
        } else {
            let req = any_layout(13, 4);
            let r1 = i1.allocate(req);
            let r2 = i2.allocate(req);
            match (r1, r2) {
                (Ok(x), Ok(y)) => {
                    assert!(x == y, "c14: the same history yields different offsets in a differently placed segment");
                    last = Some(x);
                }
                (Err(x), Err(y)) => assert!(x == y),
                _ => assert!(false, "c14: allocation outcome depends on the segment placement"),
            }
        }
        step += 1;
    }
    kani::cover!(last.is_some() && shift == 32, "allocation in the shifted segment");
    canaries();
});

/// shm pool allocator grow (in-bucket): same offset, content kept (Front) or moved to the end
/// (Back, incl. overlapping moves), neighbour bucket untouched, documented errors otherwise
proof!(14, fn c15_shm_pool_grow() {
    let mut payload = Block::<128>::new();
    let mut mgmt = Block::<MGMT>::new();
    let bl = Layout::from_size_align(12, 4).unwrap();
    let base = payload.0.as_mut_ptr();
    let seg = NonNull::slice_from_raw_parts(NonNull::new(base).unwrap(), 36);
    let cfg = shm_pool::Config { bucket_layout: bl };
    let mut a = unsafe { shm_pool::PoolAllocator::new_uninit(64, seg, &cfg) };
    let mgmt_alloc = BumpAllocator::new(NonNull::new(mgmt.0.as_mut_ptr()).unwrap(), MGMT);
    assert!(unsafe { a.init(&mgmt_alloc) }.is_ok());
    let ia = unsafe { a.assume_init() };
    let start = base as usize + a.relative_start_address();
    let other = ia.allocate(bl).unwrap();
    let old_size: usize = kani::any();
    kani::assume(old_size >= 1 && old_size <= 12);
    let new_size: usize = kani::any();
    kani::assume(new_size <= 14);
    let old_l = Layout::from_size_align(old_size, 4).unwrap();
    let new_l = Layout::from_size_align(new_size, 4).unwrap();
    let p = ia.allocate(old_l).unwrap();
    let data: [u8; 12] = kani::any();
    let mut i = 0;
    while i < 12 {
        if i < old_size {
            unsafe { *((start + p.offset() + i) as *mut u8) = data[i] };
        }
        unsafe { *((start + other.offset() + i) as *mut u8) = 0x77 };
        i += 1;
    }
    let back: bool = kani::any();
    let placement = if back { ContentPlacement::Back } else { ContentPlacement::Front };
    match unsafe { ia.grow(p, old_l, new_l, placement) } {
        Ok(q) => {
            assert!(new_size >= old_size && new_size <= 12);
            assert!(q == p, "c15: shm pool grow moved the bucket");
            let off = if back { new_size - old_size } else { 0 };
            let mut i = 0;
            while i < 12 {
                if i < old_size {
                    assert!(unsafe { *((start + q.offset() + off + i) as *const u8) } == data[i], "c15: shm pool grow lost content");
                }
                assert!(unsafe { *((start + other.offset() + i) as *const u8) } == 0x77, "c15: shm pool grow touched a neighbour bucket");
                i += 1;
            }
            kani::cover!(back && off > 0 && off < old_size, "overlapping move to the back");
        }
        Err(e) => {
            if new_size < old_size {
                assert!(e == AllocationGrowError::GrowWouldShrink);
            } else {
                assert!(new_size > 12 && e == AllocationGrowError::OutOfMemory);
            }
        }
    }
    canaries();
});

/// C14 (relocation): the shm pool allocator together with its management memory and a stand-in for
/// the payload segment in ONE block that is byte-copied to a fresh address in the middle of an
/// allocate / deallocate history (what a process sees that maps the segment elsewhere).  Offsets
/// must match the twin that stayed, and the old mapping - scribbled, kept alive - must stay
/// untouched: the allocator may use the creator's start address as a number, never as a pointer.
#[repr(C)]
pub struct ShmPoolBlock {
    alloc: shm_pool::PoolAllocator,
    mgmt: [u64; 8],
    payload: [u64; 4],
    held: [bool; 4],
}

impl crate::c14::Reloc for ShmPoolBlock {
    unsafe fn mk(at: *mut Self) {
        unsafe {
            let payload = core::ptr::addr_of_mut!((*at).payload) as *mut u8;
            let mgmt = core::ptr::addr_of_mut!((*at).mgmt) as *mut u8;
            let cfg = shm_pool::Config { bucket_layout: Layout::from_size_align(8, 8).unwrap() };
            let seg = NonNull::slice_from_raw_parts(NonNull::new(payload).unwrap(), 32);
            core::ptr::addr_of_mut!((*at).alloc).write(shm_pool::PoolAllocator::new_uninit(8, seg, &cfg));
            core::ptr::addr_of_mut!((*at).held).write([false; 4]);
            core::ptr::addr_of_mut!((*at).mgmt).write([0x0101_0101_0101_0101; 8]);
            let ma = BumpAllocator::new(NonNull::new(mgmt).unwrap(), 64);
            assert!((*at).alloc.init(&ma).is_ok());
        }
    }
    fn op(&mut self, code: u8, arg: u64) -> u64 {
        let bl = Layout::from_size_align(8, 8).unwrap();
        let ia = unsafe { self.alloc.assume_init() };
        if code & 1 == 0 {
            match ia.allocate(bl) {
                Ok(o) => {
                    let idx = o.offset() / 8;
                    assert!(idx < 4 && !self.held[idx], "c14/c15: pool handed out a live bucket");
                    self.held[idx] = true;
                    o.offset() as u64
                }
                Err(_) => crate::c14::NONE,
            }
        } else {
            let idx = (arg % 4) as usize;
            if self.held[idx] {
                self.held[idx] = false;
                unsafe { ia.deallocate(PointerOffset::new(idx * 8), bl) };
                1
            } else {
                0
            }
        }
    }
    fn observe(&mut self) -> u64 {
        let mut r = 0u64;
        let mut i = 0;
        while i < 4 {
            if self.held[i] {
                r |= 1 << i;
            }
            i += 1;
        }
        r
    }
    const KEEP_OLD: bool = true;
    unsafe fn old_intact(old: *const Self) -> bool {
        unsafe {
            let p = core::ptr::addr_of!((*old).payload) as *const u64;
            *p == u64::MAX && *p.add(1) == u64::MAX && *p.add(2) == u64::MAX && *p.add(3) == u64::MAX
        }
    }
}

proof!(8, fn c14_shm_pool_relocation() { crate::c14::relocation::<ShmPoolBlock, 3>(); canaries(); });
