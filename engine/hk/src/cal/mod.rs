//! cal-level harnesses
