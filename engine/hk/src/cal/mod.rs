//! Harnesses that need iceoryx2-cal (feature `cal`): shm allocators, named-concept isolation,
//! zero-copy connection and event hand-shake over `KStorage`.
pub mod kstorage;
pub mod ktrigger;
pub mod c15cal;
pub mod c19iso;
pub mod conn;
pub mod c05ev;
