//! C05 (hand-shake level): the real `event::common::EventImpl` (Handle::notify,
//! Waiter::drain_events, builders) over `KStorage` and the counting model trigger `KTrig`.
//! No lost wake-up: a blocking wait never "would block" while a successful, undelivered
//! notification exists, and that notification is delivered; no phantom: only notified ids.

use super::kstorage::*;
use super::ktrigger::*;
use crate::common::*;
use iceoryx2_bb_container::semantic_string::SemanticString;
use iceoryx2_bb_lock_free::mpmc::bit_set::RelocatableBitSet;
use iceoryx2_bb_system_types::file_name::FileName;
use iceoryx2_cal::event::common::EventImpl;
use iceoryx2_cal::event::trigger::State;
use iceoryx2_cal::event::*;
use iceoryx2_cal::named_concept::NamedConceptBuilder;

pub type Ev = EventImpl<RelocatableBitSet, KMgmt, KStorage<State<RelocatableBitSet, KMgmt>>, KTrig, KTrig>;
pub type EvListener = <Ev as Event<RelocatableBitSet>>::Listener;
pub type EvNotifier = <Ev as Event<RelocatableBitSet>>::Notifier;

pub const MAXID: usize = 3;

fn would_block() -> u32 {
    unsafe { WOULD_BLOCK - 100 }
}

pub fn mk() -> (EvListener, EvNotifier) {
    let name = unsafe { FileName::new_unchecked(b"e") };
    let listener = <Ev as Event<RelocatableBitSet>>::ListenerBuilder::new(&name)
        .event_id_max(EventId::new(MAXID))
        .create()
        .unwrap();
    let notifier = <Ev as Event<RelocatableBitSet>>::NotifierBuilder::new(&name).open().unwrap();
    (listener, notifier)
}

/// sequential history of notify / try_wait / blocking_wait against a pending-set model
proof!(16, fn c05_ev_history() {
    let (listener, notifier) = mk();
    let mut pending: u8 = 0;
    let mut blocked_legit = 0;
    let mut merged = false;
    let mut step = 0;
    while step < 3 {
        let op: u8 = kani::any();
        let id: usize = kani::any();
        kani::assume(id <= MAXID);
        if op == 0 {
            assert!(notifier.notify(EventId::new(id)).is_ok(), "c05: notify failed");
            if (pending >> id) & 1 == 1 {
                merged = true;
            }
            pending |= 1 << id;
        } else {
            let wb = would_block();
            let mut got: u8 = 0;
            let r = if op == 1 {
                listener.try_wait(|a| got |= 1 << a.id.as_value())
            } else {
                listener.blocking_wait(|a| got |= 1 << a.id.as_value())
            };
            assert!(r.is_ok());
            assert!(got == pending, "c05: delivered ids differ from the notified, undelivered ones (lost or phantom)");
            assert!(r.unwrap() == got.count_ones() as u64);
            if pending != 0 {
                assert!(would_block() == wb, "c05: wait would have slept although a notification was pending (lost wake-up)");
            } else if op != 1 {
                assert!(would_block() == wb + 1);
                blocked_legit += 1;
            }
            pending = 0;
        }
        step += 1;
    }
    kani::cover!(merged, "one id notified twice before a wait");
    kani::cover!(blocked_legit > 0, "a blocking wait with nothing pending would block");
    canaries();
});

/// out-of-range id is refused and delivers nothing
proof!(16, fn c05_ev_id_out_of_range() {
    let (listener, notifier) = mk();
    let id: usize = kani::any();
    kani::assume(id > MAXID && id < 64);
    assert!(notifier.notify(EventId::new(id)).is_err(), "c05: id beyond event_id_max accepted");
    let mut n = 0;
    assert!(listener.try_wait(|_| n += 1).unwrap() == 0 && n == 0, "c05: refused notification delivered something");
    canaries();
});

// ------------------------------------------------------------------------------------------
// notifications racing a wait (seams of the hand-shake, no scheduler needed)
// ------------------------------------------------------------------------------------------

pub static mut RACE_NOTIFIER: usize = 1;
pub static mut RACE_ID_A: usize = 7;
pub static mut RACE_SENT: u8 = 100; // bit mask of successfully notified ids + 100... kept as plain mask below
pub static mut RACE_MASK: u8 = 0x80; // bit 7 is a sentinel so that the initialiser is not all-zero

fn race_notify(id: usize) {
    unsafe {
        let n = &*(RACE_NOTIFIER as *const EvNotifier);
        if n.notify(EventId::new(id)).is_ok() {
            RACE_MASK |= 1 << id;
        }
    }
}

fn hook_notify_a() {
    unsafe { race_notify(RACE_ID_A) }
}

/// The listener has failed its state check and enters the (blocking) wait call; there a first
/// notification arrives and wakes it.  While the listener hands the collected ids to the user
/// callback a second notification (id symbolic: before, at or after the id being delivered)
/// completes.  Then the listener waits again.
///  * every successfully notified id is delivered by the first or the second wait;
///  * the second wait never "would block" while a successful notification is undelivered;
///  * nothing is delivered that was not notified.
proof!(16, fn c05_ev_notify_races_wait() {
    let (listener, notifier) = mk();
    unsafe {
        RACE_NOTIFIER = &notifier as *const _ as usize;
        let a: usize = kani::any();
        kani::assume(a <= MAXID);
        let b: usize = kani::any();
        kani::assume(b <= MAXID);
        RACE_ID_A = a;
        // the notification that wakes the sleeping listener arrives inside the wait call, or
        // (symbolically) at the start of the drain
        let seam: u8 = kani::any();
        kani::assume(seam == 1 || seam == 3);
        KTRIG_HOOK = hook_notify_a;
        KTRIG_HOOK_AT = seam;
        let mut d1: u8 = 0;
        let mut second_sent = false;
        let r = listener.blocking_wait(|act| {
            d1 |= 1 << act.id.as_value();
            if !second_sent {
                second_sent = true;
                race_notify(b);
            }
        });
        KTRIG_HOOK_AT = 9;
        assert!(r.is_ok());
        assert!(KTRIG_HOOK_FIRED == 1, "harness: the racing notification did not run");
        let sent = RACE_MASK & 0x7F;
        assert!(d1 & !sent == 0, "c05: delivered an id that was never notified (phantom)");
        // second wait
        let pending = sent & !d1;
        let wb = would_block();
        let mut d2: u8 = 0;
        let r2 = listener.blocking_wait(|act| d2 |= 1 << act.id.as_value());
        assert!(r2.is_ok());
        assert!(d2 & !sent == 0, "c05: delivered an id that was never notified (phantom)");
        if pending != 0 {
            assert!(would_block() == wb, "c05: the listener would have slept although a successful notification was undelivered (lost wake-up)");
        }
        // an id notified while it was being delivered may legitimately be delivered once more
        assert!(pending & !d2 == 0, "c05: a successful notification was never delivered (lost)");
        kani::cover!(seam == 1 && second_sent && b < a, "second notification for an id the collector had already passed");
        kani::cover!(pending != 0, "something was left for the second wait");
    }
    canaries();
});
