//! `KStorage<T>`: an in-memory `DynamicStorage<T>` so that the *real* generic protocol code of
//! iceoryx2-cal (zero_copy_connection::common, event::common) runs under Kani without files or
//! shared memory.  Single registry slot (one name at a time), heap block of
//! `size_of::<T>() + supplementary_size` bytes, bump allocator over the tail handed to the real
//! initializer.  Records ownership acquisitions and the single 'storage destroyed' event.
//! Trusted base: it stands in for posix_shared_memory / process_local (whose file protocol is
//! not what C13/C05/C03 are about).  No all-zero static initialisers (Kani 0.68 aliasing).
use core::fmt::Debug;
use core::marker::PhantomData;
use core::mem::MaybeUninit;
use core::ptr::NonNull;
use core::time::Duration;

use iceoryx2_bb_container::semantic_string::SemanticString;
use iceoryx2_bb_elementary_traits::testing::abandonable::Abandonable;
use iceoryx2_bb_elementary_traits::zero_copy_send::ZeroCopySend;
use iceoryx2_bb_memory::bump_allocator::BumpAllocator;
use iceoryx2_bb_posix::file::AccessMode;
use iceoryx2_bb_system_types::file_name::FileName;
use iceoryx2_bb_system_types::path::Path;
use iceoryx2_cal::dynamic_storage::*;
use iceoryx2_cal::named_concept::*;

pub static mut REG_PTR: *mut u8 = core::ptr::dangling_mut::<u8>();
/// 1 = a storage with the (single) name exists, 2 = it does not
pub static mut REG_STATE: u8 = 2;
pub static mut DESTROY_COUNT: u32 = 100;

fn kstorage_noop() {}
/// Interleaving hook: the storage model calls it at the points where another process could act
/// between two steps of the code under test.  HOOK_AT selects the point: 1 = while opening an
/// existing storage (before the handle is returned), 2 = in `has_ownership()` (the connection
/// builder calls it exactly once, right after it registered its port), 9 = never.
pub static mut KSTORAGE_HOOK: fn() = kstorage_noop;
pub static mut KSTORAGE_HOOK_AT: u8 = 9;
pub static mut KSTORAGE_HOOK_FIRED: u8 = 2; // 1 = fired, 2 = not yet

fn fire_hook(at: u8) {
    unsafe {
        if KSTORAGE_HOOK_AT == at && KSTORAGE_HOOK_FIRED == 2 {
            KSTORAGE_HOOK_FIRED = 1;
            (KSTORAGE_HOOK)();
        }
    }
}
pub static mut OWNERSHIP_ACQUIRED: u32 = 100;

#[derive(Debug, Clone)]
pub struct KConfig {
    prefix: FileName,
    suffix: FileName,
    path: Path,
}

impl Default for KConfig {
    fn default() -> Self {
        Self {
            prefix: unsafe { FileName::new_unchecked(b"p") },
            suffix: unsafe { FileName::new_unchecked(b"s") },
            path: unsafe { Path::new_unchecked(b"/t") },
        }
    }
}

impl NamedConceptConfiguration for KConfig {
    fn prefix(mut self, value: &FileName) -> Self {
        self.prefix = *value;
        self
    }
    fn get_prefix(&self) -> &FileName {
        &self.prefix
    }
    fn suffix(mut self, value: &FileName) -> Self {
        self.suffix = *value;
        self
    }
    fn path_hint(mut self, value: &Path) -> Self {
        self.path = *value;
        self
    }
    fn get_suffix(&self) -> &FileName {
        &self.suffix
    }
    fn get_path_hint(&self) -> &Path {
        &self.path
    }
}

pub struct KStorage<T> {
    name: FileName,
    ptr: *mut MaybeUninit<T>,
    has_ownership: core::cell::Cell<bool>,
}
unsafe impl<T> Send for KStorage<T> {}
unsafe impl<T> Sync for KStorage<T> {}
impl<T> Debug for KStorage<T> {
    fn fmt(&self, f: &mut core::fmt::Formatter<'_>) -> core::fmt::Result {
        f.write_str("KStorage")
    }
}

impl<T> NamedConcept for KStorage<T> {
    fn name(&self) -> &FileName {
        &self.name
    }
}

impl<T> NamedConceptMgmt for KStorage<T> {
    type Configuration = KConfig;
    unsafe fn remove_cfg(_name: &FileName, _cfg: &KConfig) -> Result<bool, NamedConceptRemoveError> {
        unsafe {
            if REG_STATE == 1 {
                REG_STATE = 2;
                DESTROY_COUNT += 1;
                Ok(true)
            } else {
                Ok(false)
            }
        }
    }
    fn does_exist_cfg(_name: &FileName, _cfg: &KConfig) -> Result<bool, NamedConceptDoesExistError> {
        Ok(unsafe { REG_STATE == 1 })
    }
    fn list_cfg(_cfg: &KConfig) -> Result<alloc::vec::Vec<FileName>, NamedConceptListError> {
        Ok(alloc::vec::Vec::new())
    }
    fn remove_path_hint(_value: &Path) -> Result<(), NamedConceptPathHintRemoveError> {
        Ok(())
    }
}

impl<T> Abandonable for KStorage<T> {
    unsafe fn abandon_in_place(mut this: NonNull<Self>) {
        unsafe { this.as_mut().has_ownership.set(false) };
    }
}

impl<T> Drop for KStorage<T> {
    fn drop(&mut self) {
        if self.has_ownership.get() {
            let _ = unsafe { Self::remove_cfg(&self.name, &KConfig::default()) };
        }
    }
}

impl<T: Send + Sync + Debug + ZeroCopySend + 'static> DynamicStorage<T> for KStorage<T> {
    type Builder<'builder> = KBuilder<'builder, T>;
    fn does_support_persistency() -> bool {
        true
    }
    fn has_ownership(&self) -> bool {
        fire_hook(2);
        self.has_ownership.get()
    }
    fn release_ownership(&self) {
        self.has_ownership.set(false)
    }
    fn acquire_ownership(&self) {
        unsafe { OWNERSHIP_ACQUIRED += 1 };
        self.has_ownership.set(true)
    }
    fn get(&self) -> &T {
        unsafe { (*self.ptr).assume_init_ref() }
    }
    unsafe fn __internal_set_type_name_in_config(_config: &mut KConfig, _type_name: &str) {}
}

pub struct KBuilder<'builder, T> {
    name: FileName,
    supplementary_size: usize,
    has_ownership: bool,
    initializer: Initializer<'builder, T>,
    _p: PhantomData<T>,
}
impl<T> Debug for KBuilder<'_, T> {
    fn fmt(&self, f: &mut core::fmt::Formatter<'_>) -> core::fmt::Result {
        f.write_str("KBuilder")
    }
}

impl<T: Send + Sync + Debug + ZeroCopySend + 'static> NamedConceptBuilder<KStorage<T>> for KBuilder<'_, T> {
    fn new(name: &FileName) -> Self {
        Self {
            name: *name,
            supplementary_size: 0,
            has_ownership: true,
            initializer: Initializer::new(|_, _| false),
            _p: PhantomData,
        }
    }
    fn config(self, _config: &KConfig) -> Self {
        self
    }
}

impl<'builder, T: Send + Sync + Debug + ZeroCopySend + 'static> KBuilder<'builder, T> {
    fn open_impl(&self) -> Result<KStorage<T>, DynamicStorageOpenError> {
        unsafe {
            if REG_STATE != 1 {
                return Err(DynamicStorageOpenError::DoesNotExist);
            }
            let handle = KStorage {
                name: self.name,
                ptr: REG_PTR as *mut MaybeUninit<T>,
                has_ownership: core::cell::Cell::new(false),
            };
            fire_hook(1);
            Ok(handle)
        }
    }
    fn create_impl(&mut self) -> Result<KStorage<T>, DynamicStorageCreateError> {
        unsafe {
            if REG_STATE == 1 {
                return Err(DynamicStorageCreateError::AlreadyExists);
            }
            let size = core::mem::size_of::<T>() + self.supplementary_size;
            let words = size.div_ceil(8);
            let block: alloc::vec::Vec<u64> = alloc::vec![0u64; words];
            let raw = alloc::boxed::Box::leak(block.into_boxed_slice()).as_mut_ptr() as *mut u8;
            let value = raw as *mut MaybeUninit<T>;
            let mut allocator = BumpAllocator::new(
                NonNull::new_unchecked(raw.add(core::mem::size_of::<T>())),
                self.supplementary_size,
            );
            if !self.initializer.call(&mut *value, &mut allocator) {
                return Err(DynamicStorageCreateError::InitializationFailed);
            }
            REG_PTR = raw;
            REG_STATE = 1;
            Ok(KStorage {
                name: self.name,
                ptr: value,
                has_ownership: core::cell::Cell::new(self.has_ownership),
            })
        }
    }
}

impl<'builder, T: Send + Sync + Debug + ZeroCopySend + 'static> DynamicStorageBuilder<'builder, T, KStorage<T>>
    for KBuilder<'builder, T>
{
    fn has_ownership(mut self, value: bool) -> Self {
        self.has_ownership = value;
        self
    }
    fn enable_global_access(self, _value: bool) -> Self {
        self
    }
    fn supplementary_size(mut self, value: usize) -> Self {
        self.supplementary_size = value;
        self
    }
    fn timeout(self, _value: Duration) -> Self {
        self
    }
    fn initializer<F: FnMut(&mut MaybeUninit<T>, &mut BumpAllocator) -> bool + 'builder>(mut self, value: F) -> Self {
        self.initializer = Initializer::new(value);
        self
    }
    fn create(mut self) -> Result<KStorage<T>, DynamicStorageCreateError> {
        self.create_impl()
    }
    fn open(self, _access_mode: AccessMode) -> Result<KStorage<T>, DynamicStorageOpenError> {
        self.open_impl()
    }
    fn open_or_create(mut self) -> Result<KStorage<T>, DynamicStorageOpenOrCreateError> {
        match self.open_impl() {
            Ok(s) => Ok(s),
            Err(_) => match self.create_impl() {
                Ok(s) => Ok(s),
                Err(e) => Err(e.into()),
            },
        }
    }
}
