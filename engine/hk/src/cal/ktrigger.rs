//! Model trigger (C05): a counting trigger in shared state standing in for the semaphore /
//! socket back-ends (FFI).  `notify` increments, `try_wait` decrements if > 0, `blocking_wait`
//! records WOULD_BLOCK if the counter is 0 (and returns so that the run continues).
use core::fmt::Debug;
use core::mem::MaybeUninit;
use core::ptr::NonNull;
use core::time::Duration;
use iceoryx2_bb_concurrency::atomic::{AtomicU64, Ordering};
use iceoryx2_bb_elementary_traits::testing::abandonable::Abandonable;
use iceoryx2_bb_elementary_traits::zero_copy_send::ZeroCopySend;
use iceoryx2_bb_system_types::file_name::FileName;
use iceoryx2_bb_system_types::path::Path;
use iceoryx2_cal::dynamic_storage::DynamicStorage;
use iceoryx2_cal::event::event_state::EventState;
use iceoryx2_cal::event::trigger::{Configuration, HandlerInterface, State, WaiterInterface};
use iceoryx2_cal::event::{ListenerCreateError, ListenerWaitError, NotifierNotifyError, NotifierOpenError};
use iceoryx2_cal::named_concept::{NamedConceptPathHintRemoveError, NamedConceptRemoveError};

/// starts at 100 (no all-zero statics)
pub static mut WOULD_BLOCK: u32 = 100;

fn ktrig_noop() {}
/// Interleaving hook of the trigger model: fired once at the selected seam so that a harness can
/// let the other side act there.  1 = entry of a wait call (the listener failed its state check
/// and is about to sleep), 3 = entry of `empty_buffer`, 9 = never.
pub static mut KTRIG_HOOK: fn() = ktrig_noop;
pub static mut KTRIG_HOOK_AT: u8 = 9;
pub static mut KTRIG_HOOK_FIRED: u8 = 2;

fn fire(at: u8) {
    unsafe {
        if KTRIG_HOOK_AT == at && KTRIG_HOOK_FIRED == 2 {
            KTRIG_HOOK_FIRED = 1;
            (KTRIG_HOOK)();
        }
    }
}

#[derive(Debug)]
#[repr(C)]
pub struct KMgmt {
    pub counter: AtomicU64,
}
unsafe impl ZeroCopySend for KMgmt {}

#[derive(Debug)]
pub struct KTrig {
    mgmt: *const KMgmt,
}
unsafe impl Send for KTrig {}
unsafe impl Sync for KTrig {}
impl Abandonable for KTrig {
    unsafe fn abandon_in_place(_this: NonNull<Self>) {}
}

impl<E: EventState, Storage: DynamicStorage<State<E, KMgmt>>> WaiterInterface<E, KMgmt, Storage> for KTrig {
    const IS_FILE_DESCRIPTOR_BASED: bool = false;
    unsafe fn remove(_name: &FileName, _config: &Configuration) -> Result<bool, NamedConceptRemoveError> {
        Ok(true)
    }
    fn remove_path_hint(_value: &Path) -> Result<(), NamedConceptPathHintRemoveError> {
        Ok(())
    }
    fn create(_name: &FileName, _config: &Configuration, mgmt: &mut MaybeUninit<KMgmt>) -> Result<Self, ListenerCreateError> {
        mgmt.write(KMgmt { counter: AtomicU64::new(0) });
        Ok(KTrig { mgmt: mgmt.as_ptr() })
    }
    fn try_wait(&self) -> Result<(), ListenerWaitError> {
        fire(1);
        let c = unsafe { &(*self.mgmt).counter };
        let v = c.load(Ordering::SeqCst);
        if v > 0 {
            c.store(v - 1, Ordering::SeqCst);
        }
        Ok(())
    }
    fn timed_wait(&self, _timeout: Duration) -> Result<(), ListenerWaitError> {
        <Self as WaiterInterface<E, KMgmt, Storage>>::blocking_wait(self)
    }
    fn blocking_wait(&self) -> Result<(), ListenerWaitError> {
        fire(1);
        let c = unsafe { &(*self.mgmt).counter };
        let v = c.load(Ordering::SeqCst);
        if v > 0 {
            c.store(v - 1, Ordering::SeqCst);
        } else {
            unsafe { WOULD_BLOCK += 1 };
        }
        Ok(())
    }
    fn empty_buffer(&self) -> Result<(), ListenerWaitError> {
        fire(3);
        unsafe { (*self.mgmt).counter.store(0, Ordering::SeqCst) };
        Ok(())
    }
}

impl<E: EventState, Storage: DynamicStorage<State<E, KMgmt>>> HandlerInterface<E, KMgmt, Storage> for KTrig {
    fn open(_name: &FileName, _config: &Configuration, mgmt: &KMgmt) -> Result<Self, NotifierOpenError> {
        Ok(KTrig { mgmt: mgmt as *const KMgmt })
    }
    fn notify(&self) -> Result<(), NotifierNotifyError> {
        unsafe { (*self.mgmt).counter.fetch_add(1, Ordering::SeqCst) };
        Ok(())
    }
}
