//! C15 — shm allocators: disjoint, aligned, in-bounds memory; failures are the documented ones.
//!
//! Real code executed: iceoryx2_bb_memory::pool_allocator::{PoolAllocator, FixedSizePoolAllocator},
//! iceoryx2_bb_elementary::bump_allocator::BumpAllocator, iceoryx2_bb_memory::one_chunk_allocator,
//! (feature `cal`) iceoryx2_cal::shm_allocator::{pool_allocator, bump_allocator, pointer_offset}.

use crate::common::*;
use core::alloc::Layout;
use core::ptr::NonNull;
use iceoryx2_bb_elementary::bump_allocator::BumpAllocator;
use iceoryx2_bb_elementary_traits::allocator::*;
use iceoryx2_bb_memory::one_chunk_allocator::OneChunkAllocator;
use iceoryx2_bb_memory::pool_allocator::FixedSizePoolAllocator;

fn any_layout(max_size: usize, max_align_log: u8) -> Layout {
    let size: usize = kani::any();
    kani::assume(size <= max_size);
    let al: u8 = kani::any();
    kani::assume(al <= max_align_log);
    Layout::from_size_align(size, 1usize << al).unwrap()
}

const POOL_MAX: usize = 4;

/// Symbolic 4-step allocate/deallocate history on the bb pool allocator over a segment with
/// symbolic start misalignment, symbolic size and symbolic bucket layout (size 1..=12, align
/// 1/2/4/8 — *including size % align != 0*), request layouts size 0..=13, align up to 16.
proof!(8, fn c15_pool_bb_history() {
    let mut m = Block::<128>::new();
    let mis: usize = kani::any();
    kani::assume(mis < 8);
    let memsize: usize = kani::any();
    kani::assume(memsize <= 56);
    let bl = any_layout(12, 3);
    kani::assume(bl.size() >= 1);
    let base = unsafe { m.0.as_mut_ptr().add(mis) };
    let lo = base as usize;
    let hi = lo + memsize;
    let a = FixedSizePoolAllocator::<POOL_MAX>::new(bl, NonNull::new(base).unwrap(), memsize);
    let nb = a.number_of_buckets() as usize;
    assert!(nb <= POOL_MAX);
    let bsz = a.bucket_size();
    assert!(bsz >= bl.size());
    assert!(a.max_alignment() == bl.align());

    let mut live: [usize; POOL_MAX] = [0; POOL_MAX];
    let mut nlive: usize = 0;
    let mut ooms: usize = 0;
    let mut reused = false;
    let mut last_freed: usize = 1; // never a valid address (non-zero initialiser on purpose)

    let mut step = 0;
    while step < 4 {
        let do_free: bool = kani::any();
        if do_free && nlive > 0 {
            let k: usize = kani::any();
            kani::assume(k < nlive);
            let p = live[k];
            unsafe { a.deallocate(NonNull::new_unchecked(p as *mut u8), bl) };
            live[k] = live[nlive - 1];
            nlive -= 1;
            last_freed = p;
        } else {
            let req = any_layout(13, 4);
            match a.allocate(req) {
                Ok(p) => {
                    let x = p.as_ptr() as usize;
                    // documented failure conditions did not apply
                    assert!(req.size() <= bsz, "c15: oversize request accepted");
                    assert!(req.align() <= bl.align(), "c15: overaligned request accepted");
                    assert!(nlive < nb, "c15: more live buckets than number_of_buckets");
                    // in bounds at full bucket size (grow up to bucket_size is in place)
                    assert!(x >= lo && x + bsz <= hi, "c15: bucket out of segment bounds");
                    assert!(x % req.align() == 0, "c15: allocation violates requested alignment");
                    let mut i = 0;
                    while i < POOL_MAX {
                        if i < nlive {
                            let y = live[i];
                            assert!(x + bsz <= y || y + bsz <= x, "c15: live buckets overlap");
                        }
                        i += 1;
                    }
                    if x == last_freed {
                        reused = true;
                    }
                    live[nlive] = x;
                    nlive += 1;
                }
                Err(e) => {
                    if req.size() > bsz {
                        assert!(e == AllocationError::SizeTooLarge);
                    } else if req.align() > bl.align() {
                        assert!(e == AllocationError::AlignmentFailure);
                    } else {
                        assert!(e == AllocationError::OutOfMemory);
                        assert!(nlive == nb, "c15: OutOfMemory although a bucket is free");
                        ooms += 1;
                    }
                }
            }
        }
        step += 1;
    }
    kani::cover!(nlive == 4, "four live buckets");
    kani::cover!(ooms > 0 && nb > 0, "pool exhausted");
    kani::cover!(reused, "freed bucket handed out again");
    kani::cover!(bl.size() % bl.align() != 0 && nlive >= 2, "bucket size not a multiple of alignment");
    canaries();
});

/// grow/shrink on the bb pool allocator keep the address; `ContentPlacement::Back` moves the old
/// bytes to the end of the grown block, `Front` leaves them in place.
proof!(14, fn c15_pool_bb_grow_shrink() {
    let mut m = Block::<64>::new();
    let bl = Layout::from_size_align(12, 4).unwrap();
    let a = FixedSizePoolAllocator::<POOL_MAX>::new(bl, NonNull::new(m.0.as_mut_ptr()).unwrap(), 40);
    let other = a.allocate(bl).unwrap();
    let old_size: usize = kani::any();
    kani::assume(old_size >= 1 && old_size <= 12);
    let new_size: usize = kani::any();
    kani::assume(new_size <= 14);
    let old_l = Layout::from_size_align(old_size, 4).unwrap();
    let new_l = Layout::from_size_align(new_size, 4).unwrap();
    let p = a.allocate(old_l).unwrap();
    let data: [u8; 12] = kani::any();
    let mut i = 0;
    while i < 12 {
        if i < old_size {
            unsafe { *p.as_ptr().add(i) = data[i] };
        }
        unsafe { *other.as_ptr().add(i) = 0x77 };
        i += 1;
    }
    let back: bool = kani::any();
    let placement = if back { ContentPlacement::Back } else { ContentPlacement::Front };
    match unsafe { a.grow(p, old_l, new_l, placement) } {
        Ok(q) => {
            assert!(new_size > old_size && new_size <= 12);
            assert!(q == p, "c15: grow moved the bucket");
            let off = if back { new_size - old_size } else { 0 };
            let mut i = 0;
            while i < 12 {
                if i < old_size {
                    assert!(unsafe { *q.as_ptr().add(off + i) } == data[i], "c15: grow lost content");
                }
                assert!(unsafe { *other.as_ptr().add(i) } == 0x77, "c15: grow touched a neighbour bucket");
                i += 1;
            }
            kani::cover!(back && off > 0, "content moved to the back");
            match unsafe { a.shrink(q, new_l, old_l) } {
                Ok(r) => assert!(r == p),
                Err(_) => assert!(false, "c15: shrink back to the old layout failed"),
            }
        }
        Err(e) => {
            if new_size <= old_size {
                assert!(e == AllocationGrowError::GrowWouldShrink);
            } else {
                assert!(new_size > 12);
                assert!(e == AllocationGrowError::OutOfMemory);
            }
        }
    }
    canaries();
});

/// bb-elementary BumpAllocator: three allocations with symbolic layouts from a segment with
/// symbolic misalignment and size: in bounds, aligned, strictly increasing and disjoint;
/// `SizeIsZero` iff size 0, `OutOfMemory` iff the aligned request does not fit.
proof!(6, fn c15_bump_bb_history() {
    let mut m = Block::<96>::new();
    let mis: usize = kani::any();
    kani::assume(mis < 16);
    let memsize: usize = kani::any();
    kani::assume(memsize <= 48);
    let base = unsafe { m.0.as_mut_ptr().add(mis) };
    let lo = base as usize;
    let a = BumpAllocator::new(NonNull::new(base).unwrap(), memsize);
    let mut cursor = lo; // model: next free address
    let mut n_ok = 0;
    let mut n_oom = 0;
    let mut step = 0;
    while step < 3 {
        let req = any_layout(20, 4);
        // reference point: what the allocator itself reports as used (public API)
        assert!(cursor == lo + a.used_space());
        let aligned = (cursor + req.align() - 1) & !(req.align() - 1);
        match a.allocate(req) {
            Ok(p) => {
                let x = p.as_ptr() as usize;
                assert!(req.size() > 0);
                assert!(x % req.align() == 0, "c15: bump allocation misaligned");
                assert!(x >= cursor, "c15: bump allocation overlaps an earlier one");
                assert!(x + req.size() <= lo + memsize, "c15: bump allocation out of bounds");
                assert!(x <= aligned + req.align(), "c15: bump allocator skipped more than its alignment padding");
                cursor = x + req.size();
                n_ok += 1;
            }
            Err(e) => {
                if req.size() == 0 {
                    assert!(e == AllocationError::SizeIsZero);
                } else {
                    assert!(e == AllocationError::OutOfMemory);
                    assert!(aligned + req.size() > lo + memsize, "c15: OutOfMemory although the request fits");
                    n_oom += 1;
                }
            }
        }
        assert!(a.used_space() == cursor - lo);
        assert!(a.free_space() == memsize - (cursor - lo));
        step += 1;
    }
    kani::cover!(n_ok == 3, "three successful bump allocations");
    kani::cover!(n_ok == 2 && n_oom == 1, "out of memory after two");
    canaries();
});

/// OneChunkAllocator: the single chunk is in bounds and aligned, a second allocation is refused
/// until the chunk is released, grow is bounded by the segment.
proof!(20, fn c15_one_chunk() {
    let mut m = Block::<96>::new();
    let mis: usize = kani::any();
    kani::assume(mis < 16);
    let memsize: usize = kani::any();
    kani::assume(memsize <= 32);
    let base = unsafe { m.0.as_mut_ptr().add(mis) };
    let lo = base as usize;
    let a = OneChunkAllocator::new(NonNull::new(base).unwrap(), memsize);
    let req = any_layout(20, 4);
    match a.allocate(req) {
        Ok(p) => {
            let x = p.as_ptr() as usize;
            assert!(x % req.align() == 0, "c15: one-chunk allocation misaligned");
            assert!(x >= lo && x + req.size() <= lo + memsize, "c15: one-chunk allocation out of bounds");
            assert!(a.allocate(req).is_err(), "c15: one-chunk allocator handed out its chunk twice");
            // grow within the segment
            let new_size: usize = kani::any();
            kani::assume(new_size <= 40);
            let new_l = Layout::from_size_align(new_size, req.align()).unwrap();
            if req.size() > 0 {
                unsafe { *p.as_ptr() = 0x42 };
            }
            match unsafe { a.grow(p, req, new_l, ContentPlacement::Back) } {
                Ok(q) => {
                    assert!(q == p);
                    assert!(new_size > req.size());
                    assert!(x + new_size <= lo + memsize, "c15: one-chunk grow beyond the segment");
                    if req.size() > 0 {
                        assert!(unsafe { *q.as_ptr().add(new_size - req.size()) } == 0x42);
                    }
                    kani::cover!(true, "grow succeeded");
                }
                Err(_) => {}
            }
            unsafe { a.deallocate(p, req) };
            assert!(a.allocate(req).is_ok(), "c15: released chunk not reusable");
        }
        Err(e) => {
            assert!(e == AllocationError::OutOfMemory);
            let aligned = (lo + req.align() - 1) & !(req.align() - 1);
            // documented: fails only for lack of space (the implementation keeps one spare byte)
            assert!(aligned + req.size() >= lo + memsize, "c15: one-chunk OutOfMemory although the request fits");
            kani::cover!(aligned > lo + memsize, "alignment padding exceeds the segment");
        }
    }
    canaries();
});
